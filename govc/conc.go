package main

// Concurrency layer: channel typestate, goroutine spawn/join, contexts, atomics.
//
// There is no interleaving semantics. A spawned function is either
//   - detached (its body is a call of a function whose contract says `attr detached yes`): the callee is
//     verified on its own; at the spawn site its precondition is checked and the channels it is declared
//     to close get a live closer; or
//   - executed in place at the spawn site (A-norace: spawned work and the spawning thread touch disjoint
//     memory except through atomics and channels, so their effects commute), under the guard "it ran".
// Joins are tracked by ghost counters (pending work per group must be 0 at every return of the function
// that created the group), blocking receives carry the obligation that the channel is closed, holds a
// value, or has a live closer.

import (
	"fmt"
	"go/types"
	"strings"

	"golang.org/x/tools/go/ssa"
)

func init() {
	ghostSorts["chClosed"] = arraySort("Int", "Bool")
	ghostSorts["chCloser"] = arraySort("Int", "Bool")
	ghostSorts["chExt"] = arraySort("Int", "Bool") // values may arrive from a detached sender
	ghostSorts["chCap"] = arraySort("Int", "Int")
	ghostSorts["chLen"] = arraySort("Int", "Int")
	ghostSorts["pending"] = arraySort("Int", "Int")   // spawned and not yet joined, per group
	ghostSorts["groupErr"] = arraySort("Int", "Bool") // some function of the group returned an error
	ghostSorts["ctxNoCancel"] = arraySort("Int", "Bool")
	ghostSorts["ctxExpires"] = arraySort("Int", "Bool")
	ghostSorts["ctxCancelled"] = arraySort("Int", "Bool")
	ghostSorts["chHas_Iface"] = arraySort("Int", arraySort(sortIface, "Bool"))
	ghostSorts["chSeenClosed"] = arraySort("Int", "Bool") // a receive on it returned ok == false: its closer has exited
	ghostSorts["chErrSeen"] = arraySort("Int", "Bool")    // a non-nil value was received from it (error channels)
}

func chHasGhost(elem types.Type) string {
	name := "chHas_" + sortTag(sortOf(elem))
	if _, ok := ghostSorts[name]; !ok {
		ghostSorts[name] = arraySort("Int", arraySort(sortOf(elem), "Bool"))
	}
	return name
}

func gSel(st *State, g string, k *Term) *Term { return Select(st.G(g), k) }
func gSet(st *State, g string, k, v *Term)   { st.setG(g, Store(st.G(g), k, v)) }

func (x *Exec) doMakeChan(fr *Frame, st *State, ins *ssa.MakeChan) Value {
	c := x.newRef(st)
	n := x.get(fr, st, ins.Size).T
	elem := ins.Type().Underlying().(*types.Chan).Elem()
	gSet(st, "chClosed", c, False)
	gSet(st, "chCloser", c, False)
	gSet(st, "chExt", c, False)
	gSet(st, "chCap", c, n)
	gSet(st, "chLen", c, Int(0))
	h := chHasGhost(elem)
	gSet(st, h, c, ConstArray(arraySort(sortOf(elem), "Bool"), False))
	x.chanEvent(fr, st, "makechan", c, n, ins)
	return Value{T: c}
}

func (x *Exec) chanCap(st *State, ch *Term) *Term { return gSel(st, "chCap", ch) }

// chanEvent runs `on makechan|send|recv|close (c, v)` monitors of the function under verification.
func (x *Exec) chanEvent(fr *Frame, st *State, what string, c, v *Term, ins ssa.Instruction, extra ...*Term) {
	con := fr.top.con
	if con == nil {
		return
	}
	for _, m := range con.Monitors {
		if m.Callee != "chan:"+what {
			continue
		}
		env := &SpecEnv{x: x, vars: map[string]SVal{}, st: st, old: fr.top.entry, pkg: fnTypesPkg(fr.top.fn), lets: map[string]*Expr{}, free: x.freeOf[con], fr: fr.top}
		for i, p := range con.Params {
			if i < len(fr.top.params) && i < len(fr.top.fn.Params) {
				env.vars[p] = SVal{T: fr.top.params[i].T, GT: fr.top.fn.Params[i].Type()}
			}
		}
		for _, l := range con.Lets {
			env.lets[l.Name] = l.Expr
		}
		if len(m.Params) > 0 && m.Params[0] != "_" {
			env.vars[m.Params[0]] = SVal{T: c}
		}
		if len(m.Params) > 1 && m.Params[1] != "_" && v != nil {
			env.vars[m.Params[1]] = SVal{T: v, GT: goTypeOfSort[v.Sort]}
		}
		// recv: an optional third parameter is the ok flag (false: the channel was closed and drained)
		if len(m.Params) > 2 && m.Params[2] != "_" && len(extra) > 0 {
			env.vars[m.Params[2]] = SVal{T: extra[0]}
		}
		x.runGhost(st, env, m.Stmts, "chan:"+what, x.site(fr, ins))
	}
}

func (x *Exec) doClose(fr *Frame, st *State, ins ssa.Instruction, ch Value) {
	c := ch.T
	ok := And(Not(Eq(c, Int(0))), Not(gSel(st, "chClosed", c)))
	// closing a nil or closed channel panics: always an obligation (it takes the process down)
	x.oblige(st, "safe", "close", x.site(fr, ins), ok, "close of nil or closed channel at "+x.pos(ins))
	st.pc = And(st.pc, ok)
	gSet(st, "chClosed", c, True)
	x.chanEvent(fr, st, "close", c, nil, ins)
}

func (x *Exec) doSend(fr *Frame, st *State, ins *ssa.Send) {
	c := x.get(fr, st, ins.Chan).T
	v := x.get(fr, st, ins.X)
	elem := ins.Chan.Type().Underlying().(*types.Chan).Elem()
	x.sendOn(fr, st, c, x.firstClass(v, elem), elem, ins)
}

func (x *Exec) sendOn(fr *Frame, st *State, c, v *Term, elem types.Type, ins ssa.Instruction) {
	ok := Not(gSel(st, "chClosed", c))
	x.oblige(st, "safe", "send", x.site(fr, ins), ok, "send on closed channel at "+x.pos(ins))
	// a send on a nil channel or on a full buffer blocks: the path does not continue (no liveness claim)
	st.pc = And(st.pc, ok, Not(Eq(c, Int(0))))
	h := chHasGhost(elem)
	gSet(st, h, c, Store(gSel(st, h, c), v, True))
	gSet(st, "chLen", c, Add(gSel(st, "chLen", c), Int(1)))
	x.chanEvent(fr, st, "send", c, v, ins)
}

// recvFrom models a receive. blocking: whether the receive can block forever (no other case, no default).
func (x *Exec) recvFrom(fr *Frame, st *State, c *Term, elem types.Type, ins ssa.Instruction, blocking bool) (v, ok *Term) {
	if blocking {
		live := Or(gSel(st, "chClosed", c), gSel(st, "chCloser", c), Gt(gSel(st, "chLen", c), Int(0)))
		x.oblige(st, "chan", "recv-has-closer", x.site(fr, ins), And(Not(Eq(c, Int(0))), live),
			"a blocking receive needs a closed channel, a buffered value or a live closer (does not hang) at "+x.pos(ins))
	}
	st.pc = And(st.pc, Not(Eq(c, Int(0))))
	vv := x.freshVal(st, "recv", elem)
	okT := Fresh("recvok", "Bool")
	h := chHasGhost(elem)
	x.assume(st, Implies(Not(okT), And(Eq(vv.T, zeroTerm(elem)), Or(gSel(st, "chClosed", c), gSel(st, "chCloser", c)))))
	x.assume(st, Implies(okT, Or(gSel(st, "chExt", c), Select(gSel(st, h, c), vv.T))))
	ln := gSel(st, "chLen", c)
	gSet(st, "chLen", c, Ite(And(okT, Gt(ln, Int(0))), Sub(ln, Int(1)), ln))
	gSet(st, "chSeenClosed", c, Or(gSel(st, "chSeenClosed", c), Not(okT)))
	if vv.T.Sort == sortIface {
		gSet(st, "chErrSeen", c, Or(gSel(st, "chErrSeen", c), And(okT, Not(Eq(Acc(vv.T, 0), Int(0))))))
	}
	x.chanEvent(fr, st, "recv", c, vv.T, ins, okT)
	return vv.T, okT
}

func (x *Exec) doRecv(fr *Frame, st *State, ins *ssa.UnOp, ch Value) Value {
	elem := ins.X.Type().Underlying().(*types.Chan).Elem()
	c := ch.T
	if x.isDoneChan(c) {
		// <-ctx.Done(): returns once the context is done; nothing else is known
		return x.zeroOrTuple(ins, elem)
	}
	v, ok := x.recvFrom(fr, st, c, elem, ins, true)
	if ins.CommaOk {
		return Value{Tup: []Value{{T: v}, {T: ok}}}
	}
	return Value{T: v}
}

func (x *Exec) zeroOrTuple(ins *ssa.UnOp, elem types.Type) Value {
	if ins.CommaOk {
		return Value{Tup: []Value{{T: zeroTerm(elem)}, {T: False}}}
	}
	return Value{T: zeroTerm(elem)}
}

func (x *Exec) isDoneChan(c *Term) bool {
	return c.kind == kApp && c.Op == "ctx.Done"
}

// doSelect: a nondeterministic choice among the cases (and default when not blocking).
func (x *Exec) doSelect(fr *Frame, st *State, ins *ssa.Select) Value {
	// result tuple: (index int, recvOk bool, r_0 T_0, ... r_n-1 T_n-1) for the receive cases
	idx := Fresh("selidx", "Int")
	n := len(ins.States)
	lo := Int(0)
	if !ins.Blocking {
		lo = Int(-1)
	}
	x.assume(st, And(Ge(idx, lo), Lt(idx, Int(int64(n)))))
	var recvVals []Value
	okAll := False
	base := st.clone()
	var sts []*State
	for i, sc := range ins.States {
		cs := base.clone()
		cs.pc = And(base.pc, Eq(idx, Int(int64(i))))
		c := x.get(fr, cs, sc.Chan).T
		elem := sc.Chan.Type().Underlying().(*types.Chan).Elem()
		if sc.Dir == types.SendOnly {
			v := x.get(fr, cs, sc.Send)
			x.sendOn(fr, cs, c, x.firstClass(v, elem), elem, ins)
			sts = append(sts, cs)
			continue
		}
		var v, ok *Term
		if x.isDoneChan(c) {
			v, ok = zeroTerm(elem), False
			// choosing this case means the context is done. A-nostop: a context without a deadline that this thread
			// has not cancelled is not done
			id := Acc(c.Args[0], 1)
			x.assumed["A-nostop: in a select, the Done() case of a context that has no deadline and was not cancelled by this thread is not taken"] = true
			cs.pc = And(cs.pc, Or(gSel(cs, "ctxExpires", id), gSel(cs, "ctxCancelled", id)))
			x.markCtxDone(cs, c.Args[0])
		} else {
			v, ok = x.recvFrom(fr, cs, c, elem, ins, false)
		}
		recvVals = append(recvVals, Value{T: Ite(Eq(idx, Int(int64(i))), v, zeroTerm(elem))})
		okAll = Ite(Eq(idx, Int(int64(i))), ok, okAll)
		sts = append(sts, cs)
	}
	if !ins.Blocking {
		cs := base.clone()
		cs.pc = And(base.pc, Eq(idx, Int(-1)))
		sts = append(sts, cs)
	}
	var live []*State
	for _, s := range sts {
		if s.pc != False {
			live = append(live, s)
		}
	}
	if len(live) == 0 {
		st.pc = False
	} else {
		*st = *mergeStates(live).clone()
	}
	out := Value{Tup: []Value{{T: idx}, {T: okAll}}}
	out.Tup = append(out.Tup, recvVals...)
	return out
}

func (x *Exec) markCtxDone(st *State, ctx *Term) {
	gSet(st, "ctxCancelled", Acc(ctx, 1), True)
}

// doGo: a go statement. The function is executed in place (A-norace), see the package comment.
func (x *Exec) doGo(fr *Frame, st *State, ins *ssa.Go) {
	x.assumed["A-norace: work started with go / Pool.Submit / Group.Go touches memory disjoint from what the spawning thread touches meanwhile (except atomics and channels); it is executed in place at the spawn site"] = true
	var args []Value
	for _, a := range ins.Call.Args {
		args = append(args, x.get(fr, st, a))
	}
	site := x.site(fr, ins)
	if ins.Call.IsInvoke() {
		x.callInvoke(fr, st, ins, &ins.Call, x.get(fr, st, ins.Call.Value), args, site)
		return
	}
	if callee := ins.Call.StaticCallee(); callee != nil {
		var clo *Closure
		if mc, ok := ins.Call.Value.(*ssa.MakeClosure); ok {
			clo = x.get(fr, st, mc).Clo
		}
		x.spawn(fr, st, ins, callee, args, clo, site, True)
		return
	}
	fv := x.get(fr, st, ins.Call.Value)
	if fv.Clo == nil {
		unsup("go of an unknown function value")
	}
	x.spawn(fr, st, ins, fv.Clo.Fn, args, fv.Clo, site, True)
}

// detachedCallee: if fn's body is (after setup) a single call of a function whose contract is
// marked `attr detached yes`, return that call.
func (x *Exec) detachedCallee(fn *ssa.Function) (*ssa.Call, *Contract) {
	for _, b := range fn.Blocks {
		for _, ins := range b.Instrs {
			if c, ok := ins.(*ssa.Call); ok {
				if callee := c.Call.StaticCallee(); callee != nil {
					if con := x.specs.contracts[funcKey(callee)]; con != nil && con.Attrs["detached"] == "yes" {
						return c, con
					}
				}
			}
		}
	}
	return nil, nil
}

// spawn starts fn(args). ran: condition under which the function is actually executed.
func (x *Exec) spawn(fr *Frame, st *State, ins ssa.Instruction, fn *ssa.Function, args []Value, clo *Closure, site string, ran *Term) Value {
	if call, con := x.detachedCallee(fn); call != nil {
		// evaluate the arguments of the detached call in a scratch frame of fn
		sub := st.clone()
		sub.pc = And(st.pc, ran)
		sfr := &Frame{fn: fn, info: analyzeFunc(fn), regs: map[ssa.Value]Value{}, parent: fr, top: fr.top, depth: fr.depth + 1, closure: clo}
		for i, p := range fn.Params {
			sfr.regs[p] = args[i]
		}
		for i, fv := range fn.FreeVars {
			sfr.regs[fv] = clo.Binds[i]
		}
		sfr.entry = sub.clone()
		// execute the straight-line prefix up to the call
		done := false
		for _, b := range fn.Blocks {
			for _, in2 := range b.Instrs {
				if in2 == ssa.Instruction(call) {
					done = true
					break
				}
				switch in2.(type) {
				case *ssa.If, *ssa.Jump, *ssa.Return, *ssa.Panic:
					unsup("detached spawn: control flow before the detached call in %s", fn)
				}
				x.step(sfr, sub, in2)
			}
			if done {
				break
			}
		}
		callee := call.Call.StaticCallee()
		var cargs []Value
		for _, a := range call.Call.Args {
			cargs = append(cargs, x.get(sfr, sub, a))
		}
		key := funcKey(callee)
		env := x.specEnvFor(con, callee.Signature, fnTypesPkg(callee), cargs, sub, sub)
		for i, r := range con.Requires {
			lab := r.Label
			if lab == "" {
				lab = fmt.Sprint(i + 1)
			}
			x.oblige(sub, "pre("+key+")", lab, site+".spawn", env.boolean(r.Expr), "precondition of a detached function at its spawn site")
		}
		// declared spawn effects: `attr closes <param>`: the started function is the closer of that channel
		if p := con.Attrs["closes"]; p != "" {
			v, ok := env.vars[p]
			if !ok {
				unsup("attr closes %s: no such parameter of %s", p, key)
			}
			cl := st.G("chCloser")
			st.setG("chCloser", Ite(ran, Store(cl, v.T, True), cl))
			ex := st.G("chExt")
			st.setG("chExt", Ite(ran, Store(ex, v.T, True), ex))
		}
		x.assumed["detached goroutine "+key+": verified against its own contract; the spawning thread only learns that it was started (and which channel it will close)"] = true
		return Value{}
	}
	if con := x.specs.contracts[funcKey(fn)]; con != nil && con.Attrs["detached"] == "yes" {
		// a function literal with its own contract, declared detached: verified on its own against that contract;
		// here only its precondition is checked, in the state at the spawn site, under the guard "it is started"
		sub := st.clone()
		sub.pc = And(st.pc, ran)
		key := funcKey(fn)
		env := x.specEnvFor(con, fn.Signature, fnTypesPkg(fn), args, sub, sub)
		fb := map[string]freeBinding{}
		for i, fv := range fn.FreeVars {
			if pt, ok := fv.Type().Underlying().(*types.Pointer); ok && clo != nil && i < len(clo.Binds) {
				fb[fv.Name()] = freeBinding{ptr: clo.Binds[i], elem: pt.Elem()}
			}
		}
		env.free = fb
		for i, r := range con.Requires {
			lab := r.Label
			if lab == "" {
				lab = fmt.Sprint(i + 1)
			}
			x.oblige(sub, "pre("+key+")", lab, site+".spawn", env.boolean(r.Expr), "precondition of a detached function at its spawn site")
		}
		// declared spawn effect `attr closes <captured variable>`: the started function is the closer of that channel
		if p := con.Attrs["closes"]; p != "" {
			b, ok := fb[p]
			if !ok {
				unsup("attr closes %s: %s captures no such variable", p, key)
			}
			ch := x.loadPtr(sub, b.ptr, b.elem)
			cl := st.G("chCloser")
			st.setG("chCloser", Ite(ran, Store(cl, ch, True), cl))
			ex := st.G("chExt")
			st.setG("chExt", Ite(ran, Store(ex, ch, True), ex))
		}
		x.assumed["detached goroutine "+key+": verified against its own contract; the spawning thread only learns that it was started (and which channel it will close)"] = true
		return Value{}
	}
	// in place
	sub := st.clone()
	sub.pc = And(st.pc, ran)
	skip := st.clone()
	skip.pc = And(st.pc, Not(ran))
	var res Value
	if sub.pc != False {
		res = x.callFunc(fr, sub, ins, fn, args, clo, site+".spawn")
	}
	var live []*State
	if sub.pc != False {
		live = append(live, sub)
	}
	if skip.pc != False {
		live = append(live, skip)
	}
	if len(live) == 0 {
		st.pc = False
		return Value{}
	}
	*st = *mergeStates(live).clone()
	return res
}

func init() {
	// worker pool --------------------------------------------------------------------------
	rules["context.Pool"] = func(x *Exec, fr *Frame, st *State, ins ssa.Instruction, sig *types.Signature, args []Value) Value {
		return Value{T: UF("context.Pool", "Int", args[0].T)}
	}
	rules["worker.(*Pool).Limited"] = func(x *Exec, fr *Frame, st *State, ins ssa.Instruction, sig *types.Signature, args []Value) Value {
		return Value{T: UF("worker.Limited", "Int", args[0].T, args[1].T)}
	}
	group := func(x *Exec, fr *Frame, st *State, ins ssa.Instruction, sig *types.Signature, args []Value) Value {
		// a new group: a struct value in the library; here a fresh identity with no pending work
		g := x.newRef(st)
		gSet(st, "pending", g, Int(0))
		gSet(st, "groupErr", g, False)
		fr.groups = append(fr.groups, g)
		fr.groupPC = append(fr.groupPC, st.pc)
		rt := sig.Results().At(0).Type()
		if sortOf(rt) == "Int" {
			return Value{T: g}
		}
		v := x.freshVal(st, "group", rt)
		x.groupOf[v.T] = g
		return v
	}
	rules["worker.(*Pool).Group"] = group
	rules["worker.(*Limited).Group"] = group
	submit := func(x *Exec, fr *Frame, st *State, ins ssa.Instruction, sig *types.Signature, args []Value) Value {
		// Submit(ctx, f): runs f on a pool goroutine unless ctx is already done (then f is dropped)
		x.assumed["library: Pool.Submit / Group.Go run the function unless the context passed is already done (read from their source); A-nostop: a run's own context is not cancelled from outside"] = true
		f := args[2]
		if f.Clo == nil {
			f.Clo = x.closureOf(f.T)
		}
		if f.Clo == nil {
			unsup("Submit of an unknown function value")
		}
		ran := x.ranCond(st, args[1].T)
		x.spawn(fr, st, ins, f.Clo.Fn, nil, f.Clo, x.site(fr, ins), ran)
		return x.resultValue(st, "submiterr", sig.Results())
	}
	rules["worker.(*Pool).Submit"] = submit
	rules["worker.(*Limited).Submit"] = submit
	rules["sync.(*Group).Go"] = func(x *Exec, fr *Frame, st *State, ins ssa.Instruction, sig *types.Signature, args []Value) Value {
		g := x.groupRef(x.loadGroup(st, args[0], sig))
		f := args[2]
		if f.Clo == nil {
			f.Clo = x.closureOf(f.T)
		}
		if f.Clo == nil {
			unsup("Group.Go of an unknown function value")
		}
		ran := x.ranCond(st, args[1].T)
		gSet(st, "pending", g, Add(gSel(st, "pending", g), Ite(ran, Int(1), Int(0))))
		r := x.spawn(fr, st, ins, f.Clo.Fn, []Value{args[1]}, f.Clo, x.site(fr, ins), ran)
		if r.T != nil {
			ge := gSel(st, "groupErr", g)
			gSet(st, "groupErr", g, Or(ge, And(ran, Not(Eq(Acc(r.T, 0), Int(0))))))
		}
		return x.resultValue(st, "goerr", sig.Results())
	}
	rules["sync.(*Group).Wait"] = func(x *Exec, fr *Frame, st *State, ins ssa.Instruction, sig *types.Signature, args []Value) Value {
		x.assumed["library: Group.Wait returns after every function passed to Go has returned; it returns nil iff none of them returned an error"] = true
		g := x.groupRef(x.loadGroup(st, args[0], sig))
		gSet(st, "pending", g, Int(0))
		e := x.freshVal(st, "waiterr", sig.Results().At(0).Type())
		x.assume(st, Eq(Eq(Acc(e.T, 0), Int(0)), Not(gSel(st, "groupErr", g))))
		gSet(st, "groupErr", g, False)
		return e
	}
	// contexts ---------------------------------------------------------------------------------
	ctxDerive := func(name string, noCancel, expires bool) ruleFn {
		return func(x *Exec, fr *Frame, st *State, ins ssa.Instruction, sig *types.Signature, args []Value) Value {
			// a derived context is a new object
			tag := Fresh(name+"tag", "Int")
			x.assume(st, Gt(tag, Int(0)))
			c := Value{T: Mk(sortIface, tag, x.newRef(st))}
			id := Acc(c.T, 1)
			parent := Acc(args[0].T, 1)
			if noCancel {
				gSet(st, "ctxNoCancel", id, True)
				gSet(st, "ctxExpires", id, False)
			} else {
				gSet(st, "ctxNoCancel", id, False)
				gSet(st, "ctxExpires", id, Or(BoolT(expires), gSel(st, "ctxExpires", parent)))
			}
			gSet(st, "ctxCancelled", id, And(BoolT(!noCancel), gSel(st, "ctxCancelled", parent)))
			if sig.Results().Len() == 1 {
				return c
			}
			// (ctx, cancel)
			cancel := Mk(sortFn, Int(int64(x.cancelFnID())), id)
			return Value{Tup: []Value{c, {T: cancel}}}
		}
	}
	for _, p := range []string{"context", "context"} {
		_ = p
	}
	rules["context.WithoutCancel"] = ctxDerive("ctxnc", true, false)
	rules["context.WithCancel"] = ctxDerive("ctxc", false, false)
	rules["context.WithTimeout"] = ctxDerive("ctxt", false, true)
	rules["context.WithDeadline"] = ctxDerive("ctxd", false, true)
	rules["context.SetPlanID"] = func(x *Exec, fr *Frame, st *State, ins ssa.Instruction, sig *types.Signature, args []Value) Value {
		return Value{T: args[0].T}
	}
	rules["context.SetActionID"] = rules["context.SetPlanID"]
	rulesInvoke["context.Context.Done"] = func(x *Exec, fr *Frame, st *State, ins ssa.Instruction, sig *types.Signature, args []Value) Value {
		return Value{T: UF("ctx.Done", "Int", args[0].T)}
	}
	rulesInvoke["context.Context.Err"] = func(x *Exec, fr *Frame, st *State, ins ssa.Instruction, sig *types.Signature, args []Value) Value {
		e := x.freshVal(st, "ctxerr", sig.Results().At(0).Type())
		// a non-nil Err means the context is done
		id := Acc(args[0].T, 1)
		x.assume(st, Implies(Not(Eq(Acc(e.T, 0), Int(0))), Not(gSel(st, "ctxNoCancel", id))))
		return e
	}
	// atomics --------------------------------------------------------------------------------
	rules["atomic.(*Int64).Load"] = func(x *Exec, fr *Frame, st *State, ins ssa.Instruction, sig *types.Signature, args []Value) Value {
		lv := x.atomicLV(args[0])
		return Value{T: x.readLV(st, lv)}
	}
	rules["atomic.(*Int64).Add"] = func(x *Exec, fr *Frame, st *State, ins ssa.Instruction, sig *types.Signature, args []Value) Value {
		lv := x.atomicLV(args[0])
		nv := Add(x.readLV(st, lv), args[1].T)
		x.writeLV(st, lv, nv)
		return Value{T: nv}
	}
	rules["atomic.(*Int64).Store"] = func(x *Exec, fr *Frame, st *State, ins ssa.Instruction, sig *types.Signature, args []Value) Value {
		x.writeLV(st, x.atomicLV(args[0]), args[1].T)
		return Value{}
	}
}

// atomicLV: the value cell of an atomic.Int64 designated by ptr.
func (x *Exec) atomicLV(ptr Value) *LValue {
	key, hs := "H_atomic_Int64_v", arraySort("Int", "Int")
	heapSorts[key] = hs
	if ptr.LV != nil {
		unsup("atomic inside a struct value")
	}
	return &LValue{Key: key, Sort: hs, Ref: ptr.T, Typ: types.Typ[types.Int64]}
}

// ranCond: the condition under which Submit/Go actually run the function, given the context passed.
func (x *Exec) ranCond(st *State, ctx *Term) *Term {
	id := Acc(ctx, 1)
	// contexts that cannot be done always run their work; contexts with a deadline may drop it;
	// others run it under A-nostop unless this thread has itself observed the cancellation.
	r := Fresh("ran", "Bool")
	x.assume(st, Implies(gSel(st, "ctxNoCancel", id), r))
	x.assume(st, Implies(And(Not(gSel(st, "ctxExpires", id)), Not(gSel(st, "ctxCancelled", id))), r))
	return r
}

func (x *Exec) groupRef(v Value) *Term {
	return x.groupRefIn(nil, v)
}

func (x *Exec) groupRefIn(st *State, v Value) *Term {
	if v.T != nil {
		if g, ok := x.groupOf[v.T]; ok {
			return g
		}
	}
	unsup("cannot identify the sync.Group value (it must come directly from Pool.Group())")
	return nil
}

var cancelFn *ssa.Function

func (x *Exec) cancelFnID() int {
	// all cancel functions share one synthetic function identity; the environment is the context id
	if x.cancelID == 0 {
		x.cancelID = len(x.fnByID)
		x.fnByID = append(x.fnByID, nil)
	}
	return x.cancelID
}

// callCancel: calling a context.CancelFunc marks that context cancelled (observed by this thread).
func (x *Exec) callCancel(st *State, fv *Term) {
	gSet(st, "ctxCancelled", Acc(fv, 1), True)
}

func isCancelFuncType(t types.Type) bool {
	s := types.TypeString(t, nil)
	return strings.HasSuffix(s, "context.CancelFunc")
}

// loadGroup: methods of sync.Group take *Group; the group identity is attached to the struct value.
func (x *Exec) loadGroup(st *State, ptr Value, sig *types.Signature) Value {
	gt := sig.Recv().Type().Underlying().(*types.Pointer).Elem()
	return Value{T: x.loadPtr(st, ptr, gt)}
}
