package main

// Calls: builtins, contracts (modular), inlining, registered rules for library
// functions, defers, and the verification of one function against its contract.

import (
	"fmt"
	"go/token"
	"go/types"
	"sort"
	"strings"

	"golang.org/x/tools/go/ssa"
)

const maxInlineDepth = 10

func (x *Exec) doCall(fr *Frame, st *State, ins ssa.Instruction, cc *ssa.CallCommon) Value {
	var args []Value
	for _, a := range cc.Args {
		args = append(args, x.get(fr, st, a))
	}
	site := x.callSite(fr, ins, cc)
	if cc.IsInvoke() {
		recv := x.get(fr, st, cc.Value)
		return x.callInvoke(fr, st, ins, cc, recv, args, site)
	}
	if b, ok := cc.Value.(*ssa.Builtin); ok {
		return x.callBuiltin(fr, st, ins, b, cc, args)
	}
	if callee := cc.StaticCallee(); callee != nil {
		var clo *Closure
		if mc, ok := cc.Value.(*ssa.MakeClosure); ok {
			v := x.get(fr, st, mc)
			clo = v.Clo
		}
		return x.callFunc(fr, st, ins, callee, args, clo, site)
	}
	// dynamic call of a function value
	fv := x.get(fr, st, cc.Value)
	return x.callFuncValue(fr, st, ins, cc, fv, args, site)
}

func (x *Exec) callSite(fr *Frame, ins ssa.Instruction, cc *ssa.CallCommon) string {
	return x.site(fr, ins)
}

func calleeName(cc *ssa.CallCommon) string {
	if cc.IsInvoke() {
		return ifaceMethodKey(cc.Value.Type(), cc.Method)
	}
	if f := cc.StaticCallee(); f != nil {
		return funcKey(f)
	}
	if b, ok := cc.Value.(*ssa.Builtin); ok {
		return b.Name()
	}
	return cc.Value.Name()
}

func ifaceMethodKey(t types.Type, m *types.Func) string {
	t = types.Unalias(t)
	if n, ok := t.(*types.Named); ok {
		pn := ""
		if n.Obj().Pkg() != nil {
			pn = n.Obj().Pkg().Name() + "."
		}
		return pn + n.Obj().Name() + "." + m.Name()
	}
	return "iface." + m.Name()
}

// ---------------------------------------------------------------------------

func (x *Exec) callFunc(fr *Frame, st *State, ins ssa.Instruction, callee *ssa.Function, args []Value, clo *Closure, site string) Value {
	key := funcKey(callee)
	x.monitors(fr, st, key, relName(callee), "before", args, Value{}, callee.Signature, site)
	var res Value
	switch {
	case key == iterKey && !(fr.top.con != nil && fr.top.con.Func == iterKey):
		res = x.ruleIterWalk(fr, st, ins, callee, args, clo, site)
	case x.specs.contracts[key] != nil && !x.specs.contracts[key].Inline && !(fr.top.con == x.specs.contracts[key] && fr.parent == nil && false):
		res = x.applyContract(fr, st, x.specs.contracts[key], callee.Signature, args, site, key)
	case ruleFor(key) != nil:
		res = ruleFor(key)(x, fr, st, ins, callee.Signature, args)
	case len(callee.Blocks) > 0:
		// inline, unless recursive
		for f := fr; f != nil; f = f.parent {
			if f.fn == callee {
				unsup("recursive call of %s needs a contract", key)
			}
		}
		x.inlined[key] = true
		rst, val, _ := x.runFunction(st.clone(), callee, args, clo, fr, nil, site)
		if rst == nil {
			st.pc = False
			return x.zeroValue(callee.Signature.Results())
		}
		*st = *rst
		res = val
	default:
		res = x.externDefault(fr, st, key, callee.Signature, args)
	}
	x.monitors(fr, st, key, relName(callee), "after", args, res, callee.Signature, site)
	return res
}

func (x *Exec) zeroValue(res *types.Tuple) Value {
	switch res.Len() {
	case 0:
		return Value{}
	case 1:
		return Value{T: zeroTerm(res.At(0).Type())}
	}
	var v Value
	for i := 0; i < res.Len(); i++ {
		v.Tup = append(v.Tup, Value{T: zeroTerm(res.At(i).Type())})
	}
	return v
}

func (x *Exec) resultValue(st *State, name string, res *types.Tuple) Value {
	switch res.Len() {
	case 0:
		return Value{}
	case 1:
		return x.freshVal(st, name, res.At(0).Type())
	}
	return x.freshVal(st, name, res)
}

var purePkgs = map[string]bool{"errors": true, "fmt": true, "strings": true, "time": true, "context": true, "uuid": true, "strconv": true,
	"math": true, "sort": true, "bytes": true, "unicode": true, "utf8": true, "reflect": true, "log": true, "slog": true, "filepath": true, "path": true, "os": true,
	"atomic": true, "rand": true, "slices": true, "maps": true, "json": true}

func (x *Exec) externDefault(fr *Frame, st *State, key string, sig *types.Signature, args []Value) Value {
	// higher-order externals must have a rule: the closure's effects would be lost otherwise
	for i := 0; i < sig.Params().Len(); i++ {
		if _, ok := sig.Params().At(i).Type().Underlying().(*types.Signature); ok {
			unsup("external higher-order function %s has no rule", key)
		}
	}
	for _, a := range args {
		if a.Local != "" {
			unsup("address of local variable %s passed to external function %s", a.Local, key)
		}
	}
	x.abstract[key] = true
	x.assumed["A-extern: "+key+" returns an unconstrained value and writes nothing visible to /repo code"] = true
	old := st.alloc
	st.alloc = Fresh("alloc_ext", "Int")
	x.assume(st, Ge(st.alloc, old))
	return x.resultValue(st, "ext_"+key, sig.Results())
}

func (x *Exec) callInvoke(fr *Frame, st *State, ins ssa.Instruction, cc *ssa.CallCommon, recv Value, args []Value, site string) Value {
	// a method call on a nil interface panics: "ite(c, v, nil)" continues only with v
	for recv.T != nil && recv.T.kind == kApp && recv.T.Op == "ite" {
		c, a, b := recv.T.Args[0], recv.T.Args[1], recv.T.Args[2]
		if b == NilIface() {
			if fr.nopanic {
				x.oblige(st, "safe", "nil", x.site(fr, ins), c, "method call on nil interface at "+x.pos(ins))
			}
			st.pc = And(st.pc, c)
			recv = Value{T: a}
			continue
		}
		if a == NilIface() {
			if fr.nopanic {
				x.oblige(st, "safe", "nil", x.site(fr, ins), Not(c), "method call on nil interface at "+x.pos(ins))
			}
			st.pc = And(st.pc, Not(c))
			recv = Value{T: b}
			continue
		}
		break
	}
	key := ifaceMethodKey(cc.Value.Type(), cc.Method)
	all := append([]Value{recv}, args...)
	sig := cc.Method.Type().(*types.Signature)
	x.monitors(fr, st, key, key, "before", all, Value{}, sig, site)
	var res Value
	switch {
	case x.specs.contracts[key] != nil:
		res = x.applyContract(fr, st, x.specs.contracts[key], sig, all, site, key)
	case rulesInvoke[key] != nil:
		res = rulesInvoke[key](x, fr, st, ins, sig, all)
	default:
		// statically known dynamic type?
		if t := recv.T; t != nil && t.kind == kApp && t.Op == "mk_"+sortIface {
			if n, ok := isLitInt(t.Args[0]); ok && n.Int64() > 0 && int(n.Int64()) < len(typeTagTypes) {
				dyn := typeTagTypes[n.Int64()]
				var fn *ssa.Function
				if types.NewMethodSet(dyn).Lookup(cc.Method.Pkg(), cc.Method.Name()) != nil {
					fn = x.w.Prog.LookupMethod(dyn, cc.Method.Pkg(), cc.Method.Name())
				}
				if fn != nil {
					recvV := Value{T: x.unbox(t.Args[1], dyn)}
					res = x.callFunc(fr, st, ins, fn, append([]Value{recvV}, args...), nil, site)
					x.monitors(fr, st, key, key, "after", all, res, sig, site)
					return res
				}
			}
		}
		if cc.Method.Name() == "Error" && cc.Method.Pkg() == nil {
			res = Value{T: UF("error.Error", sortStr, recv.T)}
			break
		}
		if impls, closed := x.closedImpls(cc.Value.Type(), cc.Method); len(impls) > 0 {
			res = x.dispatchImpls(fr, st, ins, cc, recv, args, impls, closed, key, sig, site)
			break
		}
		x.abstract[key] = true
		x.assumed["A-extern: interface method "+key+" returns an unconstrained value and writes nothing visible to /repo code"] = true
		old := st.alloc
		st.alloc = Fresh("alloc_ext", "Int")
		x.assume(st, Ge(st.alloc, old))
		res = x.resultValue(st, "inv_"+key, sig.Results())
	}
	x.monitors(fr, st, key, key, "after", all, res, sig, site)
	return res
}

// closedImpls: for an interface declared in /repo that has an unexported method (so that only types of its own
// package can implement it), the implementing types together with their method. A call through such an interface
// is a case split over these types.
type implCase struct {
	typ types.Type
	fn  *ssa.Function
}

func (x *Exec) closedImpls(it types.Type, m *types.Func) ([]implCase, bool) {
	n, ok := types.Unalias(it).(*types.Named)
	if !ok || n.Obj().Pkg() == nil || !isRepoPkg(n.Obj().Pkg().Path()) {
		return nil, false
	}
	iface, ok := n.Underlying().(*types.Interface)
	if !ok {
		return nil, false
	}
	closed := false
	for i := 0; i < iface.NumMethods(); i++ {
		if !iface.Method(i).Exported() {
			closed = true
		}
	}
	var out []implCase
	var pkgs []*types.Package
	if closed {
		pkgs = []*types.Package{n.Obj().Pkg()}
	} else {
		// an open interface declared in /repo: dispatched only when every implementation found in the loaded repository
		// packages is a workflow object type (the values such interfaces are applied to come out of the plan tree); other
		// dynamic types remain possible and are treated as external code
		var paths []string
		for path := range x.w.Pkgs {
			if isRepoPkg(path) {
				paths = append(paths, path)
			}
		}
		sort.Strings(paths)
		for _, path := range paths {
			pkgs = append(pkgs, x.w.Pkgs[path].Types)
		}
	}
	for _, pkg := range pkgs {
		sc := pkg.Scope()
		for _, name := range sc.Names() {
			tn, ok := sc.Lookup(name).(*types.TypeName)
			if !ok || tn.IsAlias() {
				continue
			}
			if nt, ok := tn.Type().(*types.Named); ok && nt.TypeParams().Len() > 0 {
				continue
			}
			for _, t := range []types.Type{tn.Type(), types.NewPointer(tn.Type())} {
				if _, isI := t.Underlying().(*types.Interface); isI {
					continue
				}
				if types.Implements(t, iface) {
					if !closed && pkg.Name() != "workflow" {
						return nil, false
					}
					if fn := x.w.Prog.LookupMethod(t, m.Pkg(), m.Name()); fn != nil {
						out = append(out, implCase{t, fn})
					}
					break
				}
			}
		}
	}
	return out, closed
}

func (x *Exec) dispatchImpls(fr *Frame, st *State, ins ssa.Instruction, cc *ssa.CallCommon, recv Value, args []Value, impls []implCase, closed bool, key string, sig *types.Signature, site string) Value {
	tag, val := Acc(recv.T, 0), Acc(recv.T, 1)
	var sts []*State
	var vals []Value
	var known []*Term
	for _, ic := range impls {
		known = append(known, Eq(tag, typeTag(ic.typ)))
	}
	// a nil interface panics; any other dynamic type is impossible (the interface has an unexported method)
	if fr.nopanic {
		x.oblige(st, "safe", "nil", x.site(fr, ins), Not(Eq(tag, Int(0))), "method call on nil interface at "+x.pos(ins))
	}
	if closed {
		st.pc = And(st.pc, Or(known...))
	} else {
		st.pc = And(st.pc, Not(Eq(tag, Int(0))))
		other := st.clone()
		other.pc = And(st.pc, Not(Or(known...)))
		if other.pc != False {
			x.abstract[key] = true
			x.assumed["A-extern: interface method "+key+" on a dynamic type outside package workflow returns an unconstrained value and writes nothing visible to /repo code"] = true
			old := other.alloc
			other.alloc = Fresh("alloc_ext", "Int")
			x.assume(other, Ge(other.alloc, old))
			sts = append(sts, other)
			vals = append(vals, x.resultValue(other, "inv_"+key, sig.Results()))
		}
	}
	for _, ic := range impls {
		cs := st.clone()
		cs.pc = And(st.pc, Eq(tag, typeTag(ic.typ)))
		if cs.pc == False {
			continue
		}
		recvV := Value{T: x.unbox(val, ic.typ)}
		v := x.callFunc(fr, cs, ins, ic.fn, append([]Value{recvV}, args...), nil, site)
		if cs.pc != False {
			sts = append(sts, cs)
			vals = append(vals, v)
		}
	}
	if len(sts) == 0 {
		st.pc = False
		return x.zeroValue(sig.Results())
	}
	m := mergeStates(sts)
	v := vals[len(vals)-1]
	for i := len(vals) - 2; i >= 0; i-- {
		v = x.iteValue(sts[i].pc, vals[i], v)
	}
	*st = *m.clone()
	return v
}

// callFuncValue: call of a function value that is not a static callee.
func (x *Exec) callFuncValue(fr *Frame, st *State, ins ssa.Instruction, cc *ssa.CallCommon, fv Value, args []Value, site string) Value {
	sig := cc.Value.Type().Underlying().(*types.Signature)
	if isCancelFuncType(cc.Value.Type()) {
		x.callCancel(st, fv.T)
		return Value{}
	}
	if fv.T != nil && fv.T.kind == kApp && fv.T.Op == "mk_"+sortFn && txEndID != 0 {
		if n, ok := isLitInt(fv.T.Args[0]); ok && n.IsInt64() && int(n.Int64()) == txEndID && len(args) == 1 {
			// the function returned by sqlitex.Transaction: commits iff *errp == nil now
			if fv.T.Args[1] == Int(1) {
				return Value{} // read-only transaction (attr readonlytx)
			}
			pt := cc.Args[0].Type().Underlying().(*types.Pointer)
			e := x.loadPtr(st, args[0], pt.Elem())
			st.setG("txCommitted", Eq(Acc(e, 0), Int(0)))
			st.setG("txOpen", False)
			st.setG("txEnded", True)
			return Value{}
		}
	}
	if fv.Clo == nil && fv.T != nil {
		fv.Clo = x.closureOf(fv.T)
	}
	name := cc.Value.Name()
	if p, ok := cc.Value.(*ssa.Parameter); ok {
		name = p.Name()
	}
	if ld, ok := cc.Value.(*ssa.UnOp); ok && ld.Op == token.MUL {
		if fa, ok := ld.X.(*ssa.FieldAddr); ok {
			// a function stored in a struct field is named by the field (stable key for monitors and `attr opaque`)
			name = fa.X.Type().Underlying().(*types.Pointer).Elem().Underlying().(*types.Struct).Field(fa.Field).Name()
		}
	}
	opaque := false
	if con := x.contractForFrame(fr.top); con != nil && con.Attrs["opaque"] == name {
		opaque = true
	}
	if fv.Clo != nil && !opaque {
		return x.callFunc(fr, st, ins, fv.Clo.Fn, args, fv.Clo, site)
	}
	// a parameter / unknown function value
	x.monitors(fr, st, name, name, "before", args, Value{}, sig, site)
	var res Value
	if opaque {
		// `attr opaque <field>`: the function stored in that field is not interpreted here
		x.assumed["A-callback: the function stored in field "+name+" called by "+funcKey(fr.top.fn)+" is not interpreted: it returns unconstrained values and does not write memory that function reads or writes"] = true
		old := st.alloc
		st.alloc = Fresh("alloc_cb", "Int")
		x.assume(st, Ge(st.alloc, old))
		res = x.resultValue(st, "cb_"+name, sig.Results())
	} else if uf := x.fnTypeUF(cc.Value.Type()); uf != "" && sig.Results().Len() == 1 {
		x.assumed["A-options: values of the functional type "+types.TypeString(cc.Value.Type(), nil)+" are side-effect free functions of their arguments (the package's own literals are; their meaning is derived from their bodies)"] = true
		ts := []*Term{fv.T}
		for _, a := range args {
			ts = append(ts, a.T)
		}
		res = Value{T: UF(uf, sortOf(sig.Results().At(0).Type()), ts...)}
	} else if cands := x.fnCandidates(cc.Value.Type()); len(cands) > 0 {
		res = x.dispatchCandidates(fr, st, ins, fv, cands, args, sig, site, cc.Value.Type())
	} else {
		con := x.contractForFrame(fr.top)
		mode := ""
		if con != nil {
			mode = con.Attrs["callback"]
		}
		if mode != "framed" {
			// not interpretable: acceptable only if provably unreachable under the contract's assumptions
			x.oblige(st, "unreach", "fnvalue", site, False, fmt.Sprintf("call of unknown function value %s (%s) in %s must be unreachable (or declare `attr callback framed`)", name, cc.Value.Type(), funcKey(fr.fn)))
			st.pc = False
			return x.zeroValue(sig.Results())
		}
		x.assumed["A-callback: the function value "+name+" passed to "+funcKey(fr.top.fn)+" does not write memory that function reads or writes"] = true
		old := st.alloc
		st.alloc = Fresh("alloc_cb", "Int")
		x.assume(st, Ge(st.alloc, old))
		res = x.resultValue(st, "cb_"+name, sig.Results())
	}
	x.monitors(fr, st, name, name, "after", args, res, sig, site)
	return res
}

func typeKeyPkgName(t types.Type) string {
	n, ok := types.Unalias(t).(*types.Named)
	if !ok || n.Obj().Pkg() == nil {
		return ""
	}
	return n.Obj().Pkg().Name() + "." + n.Obj().Name()
}

func (x *Exec) fnTypeUF(t types.Type) string {
	return x.specs.fnTypes[typeKeyPkgName(t)]
}

func (x *Exec) fnTypeByUF(uf string) types.Type {
	for k, v := range x.specs.fnTypes {
		if v == uf {
			i := strings.Index(k, ".")
			p := x.w.pkgByName(k[:i], nil)
			if p == nil {
				return nil
			}
			if o := p.Scope().Lookup(k[i+1:]); o != nil {
				return o.Type()
			}
		}
	}
	return nil
}

// closureMeaning: for a literal whose signature is that of a functional function type, derive
// "apply(f, c) == body(c)" by executing the body on a bound argument, and record it as a fact.
func (x *Exec) closureMeaning(st *State, fr *Frame, fn *ssa.Function, clo *Closure, ft *Term) {
	if len(fn.Blocks) == 0 || fn.Signature.Results().Len() != 1 {
		return
	}
	for key, uf := range x.specs.fnTypes {
		i := strings.Index(key, ".")
		p := x.w.pkgByName(key[:i], nil)
		if p == nil {
			continue
		}
		o := p.Scope().Lookup(key[i+1:])
		if o == nil || !types.Identical(o.Type().Underlying(), fn.Signature) {
			continue
		}
		var args []Value
		var bound []*Term
		ts := []*Term{ft}
		for _, prm := range fn.Params {
			bv := BoundVar("q_arg_"+prm.Name(), sortOf(prm.Type()))
			bound = append(bound, bv)
			args = append(args, Value{T: bv})
			ts = append(ts, bv)
		}
		x.dry++
		rst, val, _ := x.runFunction(st.clone(), fn, args, clo, fr, nil, "meaning")
		x.dry--
		if rst == nil || val.T == nil {
			continue
		}
		app := UF(uf, sortOf(fn.Signature.Results().At(0).Type()), ts...)
		if x.dry == 0 {
			x.facts = append(x.facts, Forall(bound, [][]*Term{{app}}, Eq(app, val.T)))
		}
	}
}

// fnCandidates: for a named function type declared in /repo, the function literals of /repo
// that flow into that type (returned as it or converted to it).
func (x *Exec) fnCandidates(t types.Type) []*ssa.Function {
	n, ok := types.Unalias(t).(*types.Named)
	if !ok || n.Obj().Pkg() == nil || !isRepoPkg(n.Obj().Pkg().Path()) {
		return nil
	}
	key := types.TypeString(n, nil)
	if c, ok := candCache[key]; ok {
		return c
	}
	var out []*ssa.Function
	seen := map[*ssa.Function]bool{}
	add := func(v ssa.Value) {
		switch v := v.(type) {
		case *ssa.MakeClosure:
			if f := v.Fn.(*ssa.Function); !seen[f] {
				seen[f] = true
				out = append(out, f)
			}
		case *ssa.Function:
			if !seen[v] {
				seen[v] = true
				out = append(out, v)
			}
		}
	}
	for _, fn := range x.w.FuncList {
		for _, b := range fn.Blocks {
			for _, ins := range b.Instrs {
				switch ins := ins.(type) {
				case *ssa.Return:
					res := fn.Signature.Results()
					for i, r := range ins.Results {
						if types.Identical(res.At(i).Type(), n) {
							add(r)
						}
					}
				case *ssa.ChangeType:
					if types.Identical(ins.Type(), n) {
						add(ins.X)
					}
				}
			}
		}
	}
	sort.Slice(out, func(i, j int) bool { return funcKey(out[i]) < funcKey(out[j]) })
	candCache[key] = out
	return out
}

var candCache = map[string][]*ssa.Function{}

func (x *Exec) dispatchCandidates(fr *Frame, st *State, ins ssa.Instruction, fv Value, cands []*ssa.Function, args []Value, sig *types.Signature, site string, t types.Type) Value {
	var names []string
	for _, c := range cands {
		names = append(names, funcKey(c))
	}
	x.assumed[fmt.Sprintf("A-options: a value of type %s is one of the repository's own literals %v (with arbitrary captured values)", t, names)] = true
	var sts []*State
	var vals []Value
	base := st.clone()
	fid := Fresh("which", "Int")
	var fenv *Term
	if fv.T != nil {
		fid, fenv = Acc(fv.T, 0), Acc(fv.T, 1)
	}
	for i, c := range cands {
		cst := base.clone()
		if i < len(cands)-1 || fv.T != nil {
			cst.pc = And(base.pc, Eq(fid, Int(int64(x.fnID(c)))))
		} else {
			var ne []*Term
			for j := 0; j < i; j++ {
				ne = append(ne, Not(Eq(fid, Int(int64(x.fnID(cands[j]))))))
			}
			cst.pc = And(base.pc, And(ne...))
		}
		if cst.pc == False {
			continue
		}
		clo := &Closure{Fn: c}
		if strings.HasSuffix(c.Name(), "$bound") && len(c.FreeVars) == 1 && fenv != nil {
			// a method value: the environment is the receiver
			rt := c.FreeVars[0].Type()
			if sortOf(rt) == "Int" {
				clo.Binds = []Value{{T: fenv}}
			} else {
				clo.Binds = []Value{{T: UF("un"+boxName(rt), sortOf(rt), fenv)}}
			}
		} else {
			for _, fvv := range c.FreeVars {
				bv := x.freshVal(cst, "cap_"+fvv.Name(), fvv.Type())
				if _, isPtr := fvv.Type().Underlying().(*types.Pointer); isPtr {
					// a captured variable is a live, allocated cell
					x.assume(cst, Gt(bv.T, Int(0)))
				}
				clo.Binds = append(clo.Binds, bv)
			}
		}
		v := x.callFunc(fr, cst, ins, c, args, clo, site)
		if cst.pc != False {
			sts = append(sts, cst)
			vals = append(vals, v)
		}
	}
	if len(sts) == 0 {
		st.pc = False
		return x.zeroValue(sig.Results())
	}
	m := mergeStates(sts)
	val := vals[len(vals)-1]
	for i := len(vals) - 2; i >= 0; i-- {
		val = x.iteValue(sts[i].pc, vals[i], val)
	}
	*st = *m.clone()
	return val
}

// ---------------------------------------------------------------------------
// builtins

func (x *Exec) callBuiltin(fr *Frame, st *State, ins ssa.Instruction, b *ssa.Builtin, cc *ssa.CallCommon, args []Value) Value {
	switch b.Name() {
	case "len":
		switch cc.Args[0].Type().Underlying().(type) {
		case *types.Slice:
			return Value{T: sLen(args[0].T)}
		case *types.Basic:
			t := UF("str.len", "Int", args[0].T)
			x.assume(st, Ge(t, Int(0)))
			x.assume(st, Eq(Eq(t, Int(0)), Eq(args[0].T, strLit(""))))
			return Value{T: t}
		case *types.Array:
			return Value{T: Int(cc.Args[0].Type().Underlying().(*types.Array).Len())}
		case *types.Map, *types.Chan:
			t := Fresh("len", "Int")
			x.assume(st, Ge(t, Int(0)))
			return Value{T: t}
		case *types.Pointer:
			return Value{T: Int(cc.Args[0].Type().Underlying().(*types.Pointer).Elem().Underlying().(*types.Array).Len())}
		}
	case "cap":
		switch cc.Args[0].Type().Underlying().(type) {
		case *types.Slice:
			return Value{T: sCap(args[0].T)}
		case *types.Chan:
			return Value{T: x.chanCap(st, args[0].T)}
		}
	case "append":
		return x.doAppend(fr, st, ins, cc, args)
	case "copy":
		return x.doCopy(fr, st, cc, args)
	case "close":
		x.doClose(fr, st, ins, args[0])
		return Value{}
	case "delete":
		x.doMapDelete(fr, st, cc, args)
		return Value{}
	case "min", "max":
		r := args[0].T
		for _, a := range args[1:] {
			if b.Name() == "min" {
				r = Ite(Lt(a.T, r), a.T, r)
			} else {
				r = Ite(Gt(a.T, r), a.T, r)
			}
		}
		return Value{T: r}
	case "print", "println":
		return Value{}
	case "ssa:wrapnilchk":
		return args[0]
	}
	unsup("builtin %s", b.Name())
	return Value{}
}

// doCopy: copy(dst, src) for slices.
func (x *Exec) doCopy(fr *Frame, st *State, cc *ssa.CallCommon, args []Value) Value {
	dt, ok := cc.Args[0].Type().Underlying().(*types.Slice)
	if !ok {
		unsup("copy into non-slice")
	}
	if _, isStr := cc.Args[1].Type().Underlying().(*types.Basic); isStr {
		unsup("copy(bytes, string)")
	}
	d, s := args[0].T, args[1].T
	es := sortOf(dt.Elem())
	key, hs := elemHeapKey(dt.Elem())
	h := st.H(key, hs)
	n := Ite(Lt(sLen(d), sLen(s)), sLen(d), sLen(s))
	row := Fresh("copyrow", arraySort("Int", es))
	j := BoundVar("q_j", "Int")
	dRow := Select(h, sArr(d))
	sRow := Select(h, sArr(s))
	// row[j] = src[j - off_d] for off_d <= j < off_d + n, else the old destination row
	x.assume(st, Forall([]*Term{j}, [][]*Term{{Select(row, j)}}, Eq(Select(row, j),
		Ite(And(Ge(j, sOff(d)), Lt(j, Add(sOff(d), n))), Select(sRow, ix(sOff(s), Sub(j, sOff(d)))), Select(dRow, j)))))
	st.setH(key, Ite(Eq(n, Int(0)), h, Store(h, sArr(d), row)))
	return Value{T: n}
}

// doAppend models append exactly: in place when capacity allows (the write is visible
// through every alias of the backing array), otherwise a fresh array holding a copy.
func (x *Exec) doAppend(fr *Frame, st *State, ins ssa.Instruction, cc *ssa.CallCommon, args []Value) Value {
	s := args[0].T
	et := cc.Args[0].Type().Underlying().(*types.Slice).Elem()
	es := sortOf(et)
	key, hs := elemHeapKey(et)
	var add *Term
	if _, isStr := cc.Args[1].Type().Underlying().(*types.Basic); isStr {
		unsup("append(bytes, string...)")
	}
	add = args[1].T
	n := sLen(add)
	// fast path: appended slice has a literal length (varargs)
	h := st.H(key, hs)
	newLen := Add(sLen(s), n)
	fits := Le(newLen, sCap(s))
	k, isLit := isLitInt(n)
	if !isLit || k.Int64() > 8 {
		// general case: quantified copy
		freshArr := x.newRef(st)
		row := Fresh("approw", arraySort("Int", es))
		j := BoundVar("q_j", "Int")
		srcRow := Select(h, sArr(s))
		addRow := Select(h, sArr(add))
		x.assume(st, Forall([]*Term{j}, [][]*Term{{Select(row, j)}}, And(
			Implies(And(Ge(j, Int(0)), Lt(j, sLen(s))), Eq(Select(row, j), Select(srcRow, ix(sOff(s), j)))),
			Implies(And(Ge(j, sLen(s)), Lt(j, newLen)), Eq(Select(row, j), Select(addRow, ix(sOff(add), Sub(j, sLen(s)))))))))
		newCap := Fresh("appcap", "Int")
		x.assume(st, Ge(newCap, newLen))
		// in-place variant, also quantified
		inRow := Fresh("inrow", arraySort("Int", es))
		x.assume(st, Forall([]*Term{j}, [][]*Term{{Select(inRow, j)}}, Eq(Select(inRow, j),
			Ite(And(Ge(j, Add(sOff(s), sLen(s))), Lt(j, Add(sOff(s), newLen))), Select(addRow, ix(sOff(add), Sub(j, Add(sOff(s), sLen(s))))), Select(srcRow, j)))))
		st.setH(key, Ite(fits, Store(h, sArr(s), inRow), Store(h, freshArr, row)))
		return Value{T: Ite(fits, Mk(sortSlice, sArr(s), sOff(s), newLen, sCap(s)), Mk(sortSlice, freshArr, Int(0), newLen, newCap))}
	}
	cnt := int(k.Int64())
	if cnt == 0 {
		return Value{T: s}
	}
	var elems []*Term
	addRow := Select(h, sArr(add))
	for i := 0; i < cnt; i++ {
		elems = append(elems, Select(addRow, ix(sOff(add), Int(int64(i)))))
	}
	// in place
	inRow := Select(h, sArr(s))
	for i, e := range elems {
		inRow = Store(inRow, ix(sOff(s), Add(sLen(s), Int(int64(i)))), e)
	}
	hIn := Store(h, sArr(s), inRow)
	// fresh array: copy of the old contents, then the new elements
	freshArr := x.newRef(st)
	row := Fresh("approw", arraySort("Int", es))
	j := BoundVar("q_j", "Int")
	srcRow := Select(h, sArr(s))
	x.assume(st, Forall([]*Term{j}, [][]*Term{{Select(row, j)}},
		Implies(And(Ge(j, Int(0)), Lt(j, sLen(s))), Eq(Select(row, j), Select(srcRow, ix(sOff(s), j))))))
	fr2 := row
	for i, e := range elems {
		fr2 = Store(fr2, Add(sLen(s), Int(int64(i))), e)
	}
	newCap := Fresh("appcap", "Int")
	x.assume(st, Ge(newCap, newLen))
	hNew := Store(h, freshArr, fr2)
	st.setH(key, Ite(fits, hIn, hNew))
	return Value{T: Ite(fits, Mk(sortSlice, sArr(s), sOff(s), newLen, sCap(s)), Mk(sortSlice, freshArr, Int(0), newLen, newCap))}
}

// ---------------------------------------------------------------------------
// defers

func (x *Exec) doDefer(fr *Frame, st *State, ins *ssa.Defer) {
	rec := &deferRec{guard: st.pc, call: &ins.Call, frame: fr, site: ins}
	for _, a := range ins.Call.Args {
		rec.args = append(rec.args, x.get(fr, st, a))
	}
	if !ins.Call.IsInvoke() {
		if _, ok := ins.Call.Value.(*ssa.Builtin); !ok {
			rec.fnv = x.get(fr, st, ins.Call.Value)
		}
	} else {
		rec.fnv = x.get(fr, st, ins.Call.Value)
	}
	fr.defers = append(fr.defers, rec)
}

func (x *Exec) runDefers(fr *Frame, st *State) {
	for i := len(fr.defers) - 1; i >= 0; i-- {
		d := fr.defers[i]
		// run under the guard "this defer statement was executed on the current path"
		run := st.clone()
		run.pc = And(st.pc, d.guard)
		skip := st.clone()
		skip.pc = And(st.pc, Not(d.guard))
		if run.pc != False {
			x.runDeferred(fr, run, d)
		}
		var sts []*State
		if run.pc != False {
			sts = append(sts, run)
		}
		if skip.pc != False {
			sts = append(sts, skip)
		}
		if len(sts) == 0 {
			st.pc = False
			return
		}
		m := mergeStates(sts)
		*st = *m.clone()
	}
}

func (x *Exec) runDeferred(fr *Frame, st *State, d *deferRec) {
	cc := d.call
	site := x.site(fr, d.site)
	switch {
	case cc.IsInvoke():
		x.callInvoke(fr, st, d.site, cc, d.fnv, d.args, site)
	default:
		if b, ok := cc.Value.(*ssa.Builtin); ok {
			x.callBuiltin(fr, st, d.site, b, cc, d.args)
			return
		}
		if callee := cc.StaticCallee(); callee != nil {
			x.callFunc(fr, st, d.site, callee, d.args, d.fnv.Clo, site)
			return
		}
		x.callFuncValue(fr, st, d.site, cc, d.fnv, d.args, site)
	}
}

// ---------------------------------------------------------------------------
// contracts at call sites

func (x *Exec) specEnvFor(con *Contract, sig *types.Signature, fnPkg *types.Package, args []Value, st, old *State) *SpecEnv {
	env := &SpecEnv{x: x, vars: map[string]SVal{}, st: st, old: old, pkg: fnPkg, lets: map[string]*Expr{}, self: con.Func, free: x.freeOf[con]}
	var ptypes []types.Type
	if sig.Recv() != nil {
		ptypes = append(ptypes, sig.Recv().Type())
	}
	for i := 0; i < sig.Params().Len(); i++ {
		ptypes = append(ptypes, sig.Params().At(i).Type())
	}
	if len(con.Params) != len(args) {
		unsup("contract of %s names %d parameters, function has %d", con.Func, len(con.Params), len(args))
	}
	for i, p := range con.Params {
		var gt types.Type
		if i < len(ptypes) {
			gt = ptypes[i]
		}
		env.vars[p] = SVal{T: args[i].T, GT: gt, LV: args[i].LV}
	}
	for _, l := range con.Lets {
		env.lets[l.Name] = l.Expr
	}
	return env
}

func bindResults(env *SpecEnv, con *Contract, sig *types.Signature, res Value) {
	rs := sig.Results()
	switch {
	case rs.Len() == 1 && len(con.Results) >= 1:
		env.vars[con.Results[0]] = SVal{T: res.T, GT: rs.At(0).Type()}
	case rs.Len() > 1:
		for i, n := range con.Results {
			if i < len(res.Tup) {
				env.vars[n] = SVal{T: res.Tup[i].T, GT: rs.At(i).Type()}
			}
		}
	}
}

func sigPkg(key string, w *World) *types.Package {
	// key = pkgname.rest
	if i := strings.Index(key, "."); i > 0 {
		return w.pkgByName(key[:i], nil)
	}
	return nil
}

func (x *Exec) applyContract(fr *Frame, st *State, con *Contract, sig *types.Signature, args []Value, site, key string) Value {
	for _, a := range args {
		if a.Local != "" {
			unsup("address of local variable %s passed to contracted function %s", a.Local, key)
		}
	}
	pkg := sigPkg(key, x.w)
	pre := st.clone()
	env := x.specEnvFor(con, sig, pkg, args, st, pre)
	for i, r := range con.Requires {
		lab := r.Label
		if lab == "" {
			lab = fmt.Sprint(i + 1)
		}
		x.oblige(st, "pre("+key+")", lab, site, env.boolean(r.Expr), "")
	}
	if fr.nopanic && !con.NoPanic && !con.Trusted {
		x.oblige(st, "safe", "callee-nopanic", site, False, "callee "+key+" is not declared nopanic")
	}
	if con.Trusted {
		x.assumed["trusted contract: "+key] = true
	}
	// havoc
	if !con.Pure {
		regions := x.modRegions(con, env)
		old := st.alloc
		st.alloc = Fresh("alloc_call", "Int")
		x.assume(st, Ge(st.alloc, old))
		x.havocRegions(st, pre, regions)
	}
	res := x.resultValue(st, "res_"+key, sig.Results())
	env2 := x.specEnvFor(con, sig, pkg, args, st, pre)
	bindResults(env2, con, sig, res)
	// ghost locals of the callee's contract are unknown to the caller (existentially quantified)
	for _, g := range con.Ghosts {
		env2.vars[g.Name] = SVal{T: Fresh("cg_"+g.Name, g.Sort)}
	}
	var posts []*Term
	for _, e := range con.Ensures {
		if e.Internal {
			continue
		}
		posts = append(posts, env2.boolean(e.Expr))
	}
	post := And(posts...)
	// result structuring: unconditional clauses "res.f.g == t" (t not mentioning res) are folded into the result
	// value, so that e.g. the next state of a state machine is known syntactically to the caller
	if res.T != nil && dtTab[res.T.Sort] != nil && res.T.kind == kConst {
		cur := res.T
		for round := 0; round < 4; round++ {
			changed := false
			for _, c := range conjuncts(post) {
				if c.kind != kApp || c.Op != "=" {
					continue
				}
				for k := 0; k < 2; k++ {
					lhs, rhs := c.Args[k], c.Args[1-k]
					path, ok := accessorPath(lhs, res.T)
					if !ok || len(path) == 0 || mentions(rhs, res.T) {
						continue
					}
					if getPath(cur, path) == rhs {
						continue
					}
					cur = setPath(cur, path, rhs)
					changed = true
				}
			}
			if !changed {
				break
			}
		}
		if cur != res.T {
			m := map[*Term]*Term{res.T: cur}
			post = Subst(post, m)
			res = Value{T: cur}
		}
	}
	x.assumePC(st, post)
	return res
}

// ---------------------------------------------------------------------------
// modifies

type modRegion struct {
	Key    string
	Sort   string
	Guard  *Term                      // Single: the path to the location dereferences no nil pointer (nil = true)
	Single *LValue                    // exactly one location (whole cell)
	In     func(ref, idx *Term) *Term // membership otherwise
	Ghost  string
}

func (x *Exec) modRegions(con *Contract, env *SpecEnv) []modRegion {
	var out []modRegion
	for _, m := range con.Modifies {
		out = append(out, x.modRegion(m.Expr, env)...)
	}
	return out
}

func (x *Exec) modRegion(e *Expr, env *SpecEnv) []modRegion {
	if e.Kind == "id" {
		if _, ok := ghostSorts[e.Name]; ok {
			return []modRegion{{Ghost: e.Name}}
		}
	}
	if e.Kind == "call" && e.Name == "spare" && hasInnerStar(e.Args[0], false) {
		// spare(x[*].f): the spare capacity of every such slice
		regs := x.starRegion(&Expr{Kind: "call", Name: "spareof", Args: e.Args, Line: e.Line, File: e.File}, env)
		return regs
	}
	if e.Kind == "call" && e.Name == "spare" {
		s := env.eval(e.Args[0])
		sl, ok := s.GT.Underlying().(*types.Slice)
		if !ok {
			env.errf(e, "spare() of non-slice")
		}
		key, hs := elemHeapKey(sl.Elem())
		heapSorts[key] = hs
		t := s.T
		return []modRegion{{Key: key, Sort: hs, In: func(ref, idx *Term) *Term {
			return And(Eq(ref, sArr(t)), Ge(idx, Add(sOff(t), sLen(t))))
		}}}
	}
	// mapof(m): every entry of map m
	if e.Kind == "call" && e.Name == "mapof" && len(e.Args) == 1 {
		m := env.eval(e.Args[0])
		mt, ok := m.GT.Underlying().(*types.Map)
		if !ok {
			env.errf(e, "mapof() of a non-map")
		}
		vk, vs, pk, ps := mapHeapKeys(mt)
		t := m.T
		in := func(ref, idx *Term) *Term { return Eq(ref, t) }
		return []modRegion{{Key: vk, Sort: vs, In: in}, {Key: pk, Sort: ps, In: in}}
	}
	// heap(KEY): a whole heap array
	if e.Kind == "call" && e.Name == "heap" && len(e.Args) == 1 && e.Args[0].Kind == "id" {
		k := e.Args[0].Name
		hs, ok := heapSorts[k]
		if !ok {
			env.errf(e, "heap(%s): unknown heap array", k)
		}
		return []modRegion{{Key: k, Sort: hs, In: func(r, j *Term) *Term { return True }}}
	}
	// all(T, v, pred).f : field f of every object v of type T satisfying pred (QF membership)
	if e.Kind == "field" && e.Args[0].Kind == "call" && e.Args[0].Name == "all" {
		c := e.Args[0]
		if len(c.Args) != 3 || c.Args[1].Kind != "id" {
			env.errf(e, "all(Type, var, predicate).field expected")
		}
		t := env.goType(c.Args[0])
		su, ok := t.Underlying().(*types.Struct)
		if !ok {
			env.errf(e, "all(): %s is not a struct type", t)
		}
		vname := c.Args[1].Name
		pred := c.Args[2]
		mk := func(i int) modRegion {
			key, hs := fieldHeapKey(t, i)
			heapSorts[key] = hs
			return modRegion{Key: key, Sort: hs, In: func(r, j *Term) *Term {
				return env.bind(vname, SVal{T: r, GT: types.NewPointer(t)}).boolean(pred)
			}}
		}
		if e.Name == "*" {
			var out []modRegion
			for i := 0; i < su.NumFields(); i++ {
				out = append(out, mk(i))
			}
			return out
		}
		i := fieldIndex(su, e.Name)
		if i < 0 {
			env.errf(e, "type %s has no field %s", t, e.Name)
		}
		return []modRegion{mk(i)}
	}
	// a star in the middle of the path: the set of locations over all elements
	if hasInnerStar(e, true) {
		return x.starRegion(e, env)
	}
	var derefs []*Term
	env2 := *env
	env2.derefs = &derefs
	env = &env2
	v := env.eval(e)
	guard := And(derefs...)
	switch v.All {
	case "fields":
		b := v.Base
		pt, ok := b.GT.Underlying().(*types.Pointer)
		if !ok {
			env.errf(e, "x.* on non-pointer")
		}
		su, ok := pt.Elem().Underlying().(*types.Struct)
		if !ok {
			env.errf(e, "x.* on pointer to non-struct")
		}
		var out []modRegion
		for i := 0; i < su.NumFields(); i++ {
			lv := x.fieldLV(Value{T: b.T}, pt.Elem(), i)
			out = append(out, modRegion{Key: lv.Key, Sort: lv.Sort, Single: lv, Guard: And(guard, Not(Eq(b.T, Int(0))))})
		}
		return out
	case "elems":
		b := v.Base
		sl, ok := b.GT.Underlying().(*types.Slice)
		if !ok {
			env.errf(e, "x[*] on non-slice")
		}
		key, hs := elemHeapKey(sl.Elem())
		heapSorts[key] = hs
		t := b.T
		return []modRegion{{Key: key, Sort: hs, In: func(ref, idx *Term) *Term {
			return And(Eq(ref, sArr(t)), Ge(idx, sOff(t)), Lt(idx, Add(sOff(t), sLen(t))))
		}}}
	}
	if v.LV == nil {
		env.errf(e, "modifies item %s does not designate a location", e)
	}
	lv := *v.LV
	lv.Path = nil // whole cell
	return []modRegion{{Key: lv.Key, Sort: lv.Sort, Single: &lv, Guard: guard}}
}

// singleIn: membership of (ref, idx) in a single-location region.
func singleIn(reg modRegion, ref, idx *Term) *Term {
	c := Eq(ref, reg.Single.Ref)
	if reg.Single.Idx != nil && idx != nil {
		c = And(c, Eq(idx, reg.Single.Idx))
	}
	if reg.Guard != nil {
		c = And(reg.Guard, c)
	}
	return c
}

// freshOnlyGhost: typestate maps whose entries for identities that existed before a call / loop /
// function entry are never changed by that call / loop / function (groups are never shared).
var freshOnlyGhost = map[string]bool{"pending": true, "groupErr": true}

// volatileGhost: scratch ghosts set by monitors right before they are used; they carry nothing across calls.
var volatileGhost = map[string]bool{"curAct": true}

// freshUnlessListed: typestate of channels and contexts. A function that does not list them in its modifies clause may
// only create new channels / contexts (entries of identities that existed at its entry are unchanged).
func freshUnlessListed(g string) bool {
	switch g {
	case "stQ", "bT", "bI", "bB", "bKind", "psOf":
		// statement recorders and prepared statements are local objects of the function that builds them
		return true
	case "ctxVal", "ctxNoCancel", "ctxExpires", "ctxCancelled", "chClosed", "chCloser", "chExt", "chCap", "chLen", "chSeenClosed", "chErrSeen":
		return true
	}
	return strings.HasPrefix(g, "chHas_")
}

// hasInnerStar: does the location path contain x[*] followed by further selectors?
func hasInnerStar(e *Expr, top bool) bool {
	switch e.Kind {
	case "field":
		return hasInnerStar(e.Args[0], false)
	case "index":
		if e.Args[1].Kind == "id" && e.Args[1].Name == "*" {
			if !top {
				return true
			}
			return hasInnerStar(e.Args[0], false)
		}
		return hasInnerStar(e.Args[0], false)
	}
	return false
}

// starRegion evaluates a path with inner stars: every star becomes a bound index variable ranging over
// the slice it indexes; the region is the set of locations designated for some values of them.
func (x *Exec) starRegion(e *Expr, env *SpecEnv) []modRegion {
	var bound []*Term
	var rng []*Term
	n := 0
	var rewrite func(e *Expr) *Expr
	rewrite = func(e *Expr) *Expr {
		switch e.Kind {
		case "field":
			return &Expr{Kind: "field", Name: e.Name, Args: []*Expr{rewrite(e.Args[0])}, Line: e.Line, File: e.File}
		case "index":
			base := rewrite(e.Args[0])
			if e.Args[1].Kind == "id" && e.Args[1].Name == "*" {
				name := fmt.Sprintf("star%d", n)
				n++
				bv := BoundVar("q_"+name, "Int")
				bound = append(bound, bv)
				env = env.bind(name, SVal{T: bv})
				b := env.eval(base)
				if b.T == nil || b.T.Sort != sortSlice {
					env.errf(e, "[*] on a non-slice")
				}
				rng = append(rng, Ge(bv, Int(0)), Lt(bv, sLen(b.T)))
				return &Expr{Kind: "index", Args: []*Expr{base, {Kind: "id", Name: name}}, Line: e.Line, File: e.File}
			}
			return &Expr{Kind: "index", Args: []*Expr{base, e.Args[1]}, Line: e.Line, File: e.File}
		}
		return e
	}
	allFields := false
	top := e
	spare := false
	if e.Kind == "call" && e.Name == "spareof" {
		spare = true
		top = e.Args[0]
	}
	if e.Kind == "field" && e.Name == "*" {
		allFields = true
		top = e.Args[0]
	}
	re := rewrite(top)
	v := env.eval(re)
	if spare {
		sl, ok := v.GT.Underlying().(*types.Slice)
		if !ok {
			env.errf(e, "spare() of non-slice")
		}
		key, hs := elemHeapKey(sl.Elem())
		heapSorts[key] = hs
		t := v.T
		return []modRegion{{Key: key, Sort: hs, In: func(r, j *Term) *Term {
			c := append(append([]*Term{}, rng...), Eq(r, sArr(t)), Ge(j, Add(sOff(t), sLen(t))))
			return Exists(bound, And(c...))
		}}}
	}
	mk := func(lv *LValue) modRegion {
		ref, idx := lv.Ref, lv.Idx
		return modRegion{Key: lv.Key, Sort: lv.Sort, In: func(r, j *Term) *Term {
			c := append(append([]*Term{}, rng...), Eq(r, ref))
			if idx != nil && j != nil {
				c = append(c, Eq(j, idx))
			}
			return Exists(bound, And(c...))
		}}
	}
	if allFields {
		pt, ok := v.GT.Underlying().(*types.Pointer)
		if !ok {
			env.errf(e, "x.* on non-pointer")
		}
		su := pt.Elem().Underlying().(*types.Struct)
		var out []modRegion
		for i := 0; i < su.NumFields(); i++ {
			out = append(out, mk(x.fieldLV(Value{T: v.T}, pt.Elem(), i)))
		}
		return out
	}
	if v.LV == nil {
		env.errf(e, "modifies item %s does not designate a location", e)
	}
	lv := *v.LV
	lv.Path = nil
	return []modRegion{mk(&lv)}
}

func (x *Exec) havocRegions(st, pre *State, regions []modRegion) {
	byKey := map[string][]modRegion{}
	var keys []string
	for _, r := range regions {
		if r.Ghost != "" {
			ng := Fresh("G_"+r.Ghost+"_call", ghostSorts[r.Ghost])
			if freshOnlyGhost[r.Ghost] {
				q := BoundVar("q_fg", "Int")
				x.assume(st, Forall([]*Term{q}, [][]*Term{{Select(ng, q)}}, Implies(Lt(q, pre.alloc), Eq(Select(ng, q), Select(pre.G(r.Ghost), q)))))
			}
			st.setG(r.Ghost, ng)
			continue
		}
		if _, ok := byKey[r.Key]; !ok {
			keys = append(keys, r.Key)
		}
		byKey[r.Key] = append(byKey[r.Key], r)
	}
	sort.Strings(keys)
	for _, k := range keys {
		rs := byKey[k]
		allSingle := true
		for _, r := range rs {
			if r.Single == nil {
				allSingle = false
			}
		}
		hs := rs[0].Sort
		h := pre.H(k, hs)
		if allSingle {
			cur := h
			for _, r := range rs {
				lv := r.Single
				var upd *Term
				if lv.Idx != nil {
					row := Select(cur, lv.Ref)
					es := elemSortOf(row.Sort)
					upd = Store(cur, lv.Ref, Store(row, lv.Idx, Fresh("hv_"+k, es)))
				} else {
					upd = Store(cur, lv.Ref, Fresh("hv_"+k, elemSortOf(hs)))
				}
				if r.Guard != nil && r.Guard != True {
					cur = Ite(r.Guard, upd, cur)
				} else {
					cur = upd
				}
			}
			st.setH(k, cur)
			continue
		}
		nh := freshHeap(st, k, "call")
		r := BoundVar("q_r", "Int")
		in := func(ref, idx *Term) *Term {
			var ds []*Term
			for _, reg := range rs {
				if reg.Single != nil {
					ds = append(ds, singleIn(reg, ref, idx))
				} else {
					ds = append(ds, reg.In(ref, idx))
				}
			}
			return Or(ds...)
		}
		if strings.HasPrefix(k, "EH_") {
			j := BoundVar("q_j", "Int")
			x.assume(st, Forall([]*Term{r, j}, [][]*Term{{Select(Select(nh, r), j)}},
				Implies(And(Lt(r, pre.alloc), Not(in(r, j))), Eq(Select(Select(nh, r), j), Select(Select(h, r), j)))))
		} else {
			x.assume(st, Forall([]*Term{r}, [][]*Term{{Select(nh, r)}},
				Implies(And(Lt(r, pre.alloc), Not(in(r, nil))), Eq(Select(nh, r), Select(h, r)))))
		}
		st.setH(k, nh)
	}
}

// ---------------------------------------------------------------------------
// verifying one function against its contract

func (x *Exec) verifyFunction(con *Contract) {
	fn := x.w.Funcs[con.Func]
	x.cur = con
	x.curKey = con.Func
	x.facts = nil
	x.retryOrd = map[*ssa.Function]int{}
	namedFormulas = map[*Term]*Term{}
	x.meaningDone = map[*ssa.Function]bool{}
	start := len(x.obls)
	defer func() {
		if r := recover(); r != nil {
			if u, ok := r.(unsupported); ok {
				x.obls = x.obls[:start]
				x.obls = append(x.obls, &Obligation{Name: con.Func + "#tool-limit", Func: con.Func, Kind: "tool-limit", Failed: u.msg, Props: con.Props})
				return
			}
			// any other failure of the engine on this function (an internal inconsistency, an index out of range on code
			// of a shape it has never seen): the function is undecided, which is reported like an unsupported construct -
			// a named failed obligation - instead of taking the whole check down
			x.obls = x.obls[:start]
			x.obls = append(x.obls, &Obligation{Name: con.Func + "#tool-limit", Func: con.Func, Kind: "tool-limit", Failed: fmt.Sprintf("engine failure: %v", r), Props: con.Props})
			return
		}
	}()
	if fn == nil {
		x.obls = append(x.obls, &Obligation{Name: con.Func + "#missing", Func: con.Func, Kind: "missing", Failed: "contracted function not found in /repo", Props: con.Props})
		return
	}
	st := newState()
	x.facts = append(x.facts, Ge(st.alloc, Int(1)))
	var args []Value
	for _, p := range fn.Params {
		args = append(args, x.freshVal(st, "arg_"+p.Name(), p.Type()))
	}
	var clo *Closure
	if len(fn.FreeVars) > 0 {
		// a function literal verified on its own: captured variables are arbitrary live cells
		clo = &Closure{Fn: fn}
		fb := map[string]freeBinding{}
		var cells []*Term
		for _, fv := range fn.FreeVars {
			bv := x.freshVal(st, "fv_"+fv.Name(), fv.Type())
			if pt, isPtr := fv.Type().Underlying().(*types.Pointer); isPtr {
				x.facts = append(x.facts, Gt(bv.T, Int(0)))
				cells = append(cells, bv.T)
				fb[fv.Name()] = freeBinding{ptr: bv, elem: pt.Elem()}
			}
			clo.Binds = append(clo.Binds, bv)
		}
		if len(cells) > 1 {
			x.facts = append(x.facts, App("distinct", "Bool", cells...))
		}
		x.freeOf[con] = fb
	}
	for _, g := range con.Ghosts {
		ghostSorts[g.Name] = g.Sort
	}
	entry := st.clone()
	env := x.specEnvFor(con, fn.Signature, fnTypesPkg(fn), args, st, entry)
	for _, g := range con.Ghosts {
		if g.Init != nil {
			st.ghost[g.Name] = env.eval(g.Init).T
		}
	}
	var pres []*Term
	for _, r := range con.Requires {
		pres = append(pres, env.boolean(r.Expr))
	}
	x.assumePC(st, And(pres...))
	entry = st.clone()
	// vacuity canary: the precondition must be satisfiable
	x.obls = append(x.obls, &Obligation{Name: con.Func + "#vacuity[requires-sat]", Func: con.Func, Kind: "canary", Facts: x.facts[:len(x.facts):len(x.facts)], PC: st.pc, Goal: False, Props: con.Props})
	if con.Trusted {
		return
	}
	x.pendingRegions = x.modRegions(con, x.specEnvFor(con, fn.Signature, fnTypesPkg(fn), args, entry, entry))
	if x.pendingRegions == nil {
		x.pendingRegions = []modRegion{}
	}
	_, _, fr := x.runFunction(st, fn, args, clo, nil, con, "")
	// postconditions at each return site
	for _, r := range fr.rets {
		// vacuity canary per return site: the assumptions collected on the way to it must be satisfiable (a contradictory
		// invariant or callee contract would otherwise prove every postcondition there)
		if !strings.Contains(","+con.Attrs["unreachableret"]+",", fmt.Sprintf(",%d,", r.ord)) {
			x.obls = append(x.obls, &Obligation{Name: fmt.Sprintf("%s#vacuity[ret%d-reachable]", con.Func, r.ord), Func: con.Func, Kind: "canary", Facts: x.facts[:len(x.facts):len(x.facts)], PC: r.st.pc, Goal: False, Props: con.Props})
		}
		renv := x.specEnvFor(con, fn.Signature, fnTypesPkg(fn), args, r.st, entry)
		bindResults(renv, con, fn.Signature, r.val)
		for i, e := range con.Ensures {
			lab := e.Label
			if lab == "" {
				lab = fmt.Sprint(i + 1)
			}
			x.oblige(r.st, "post", lab, fmt.Sprintf("ret%d", r.ord), renv.boolean(e.Expr), "")
		}
	}
	if len(fr.rets) > 0 {
		// canary: ensures false must fail at the merged return
		mst, _, _ := x.mergeReturns(fr)
		x.obls = append(x.obls, &Obligation{Name: con.Func + "#vacuity[return-reachable]", Func: con.Func, Kind: "canary", Facts: x.facts[:len(x.facts):len(x.facts)], PC: mst.pc, Goal: False, Props: con.Props})
		x.frameObligations(con, fn, args, entry, mst)
	}
}

// frameObligations: every heap array written is unchanged outside the modifies clause for
// objects that existed at entry.
func (x *Exec) frameObligations(con *Contract, fn *ssa.Function, args []Value, entry, final *State) {
	env := x.specEnvFor(con, fn.Signature, fnTypesPkg(fn), args, entry, entry)
	regions := x.modRegions(con, env)
	byKey := map[string][]modRegion{}
	ghostMod := map[string]bool{}
	for _, r := range regions {
		if r.Ghost != "" {
			ghostMod[r.Ghost] = true
			continue
		}
		byKey[r.Key] = append(byKey[r.Key], r)
	}
	var keys []string
	for k := range final.heap {
		keys = append(keys, k)
	}
	sort.Strings(keys)
	for _, k := range keys {
		hs := heapSorts[k]
		h0 := entry.H(k, hs)
		h1 := final.H(k, hs)
		if h0 == h1 {
			continue
		}
		r := Fresh("fr_r", "Int")
		var idx *Term
		var differs *Term
		if strings.HasPrefix(k, "EH_") {
			idx = Fresh("fr_j", "Int")
			differs = Not(Eq(Select(Select(h1, r), idx), Select(Select(h0, r), idx)))
		} else {
			differs = Not(Eq(Select(h1, r), Select(h0, r)))
		}
		var ins []*Term
		for _, reg := range byKey[k] {
			if reg.Single != nil {
				ins = append(ins, singleIn(reg, r, idx))
			} else {
				ins = append(ins, reg.In(r, idx))
			}
		}
		hyp := And(Gt(r, Int(0)), Lt(r, entry.alloc), Not(Or(ins...)), differs)
		x.oblige(final, "frame", k, "", Not(hyp), "heap array "+k+" changes only inside the modifies clause")
	}
	var gs []string
	for g := range final.ghost {
		gs = append(gs, g)
	}
	sort.Strings(gs)
	for _, g := range gs {
		if volatileGhost[g] {
			continue
		}
		if (freshOnlyGhost[g] || (freshUnlessListed(g) && !ghostMod[g])) && final.G(g) != entry.G(g) {
			// typestate of groups: a function may only change the entries of groups it created itself
			r := BoundVar("q_fg", "Int")
			x.oblige(final, "frame", "ghost:"+g, "", Forall([]*Term{r}, [][]*Term{{Select(final.G(g), r)}},
				Implies(Lt(r, entry.alloc), Eq(Select(final.G(g), r), Select(entry.G(g), r)))), "typestate ghost "+g+" changes only for identities created by this function")
			continue
		}
		if ghostMod[g] || final.G(g) == entry.G(g) {
			continue
		}
		local := false
		for _, gv := range con.Ghosts {
			if gv.Name == g {
				local = true
			}
		}
		if local {
			continue
		}
		x.oblige(final, "frame", "ghost:"+g, "", Eq(final.G(g), entry.G(g)), "ghost "+g+" not in modifies")
	}
}

// ---------------------------------------------------------------------------
// ghost monitors

// stripTypeArgs removes the trailing type-argument list of an instantiated generic function or method name
// (sync.(*ShardedMap[K,V]).Get[uuid.UUID,chan struct{}] -> sync.(*ShardedMap[K,V]).Get).
func stripTypeArgs(key string) string {
	if !strings.HasSuffix(key, "]") {
		return key
	}
	depth := 0
	for i := len(key) - 1; i >= 0; i-- {
		switch key[i] {
		case ']':
			depth++
		case '[':
			depth--
			if depth == 0 {
				return key[:i]
			}
		}
	}
	return key
}

func (x *Exec) monitors(fr *Frame, st *State, key, rel, when string, args []Value, res Value, sig *types.Signature, site string) {
	con := fr.top.con
	if con == nil || len(con.Monitors) == 0 {
		return
	}
	for _, m := range con.Monitors {
		if m.When != when {
			continue
		}
		if !(m.Callee == key || m.Callee == rel || m.Callee == stripTypeArgs(key) || strings.HasSuffix(key, "."+m.Callee) || strings.HasSuffix(stripTypeArgs(key), "."+m.Callee)) {
			continue
		}
		env := &SpecEnv{x: x, vars: map[string]SVal{}, st: st, old: fr.top.entry, pkg: fnTypesPkg(fr.top.fn), lets: map[string]*Expr{}, free: x.freeOf[con], fr: fr.top}
		// contract parameters of the function under verification remain visible
		for i, p := range con.Params {
			if i < len(fr.top.params) {
				var gt types.Type
				if i < len(fr.top.fn.Params) {
					gt = fr.top.fn.Params[i].Type()
				}
				env.vars[p] = SVal{T: fr.top.params[i].T, GT: gt}
			}
		}
		for _, l := range con.Lets {
			env.lets[l.Name] = l.Expr
		}
		var ptypes []types.Type
		if sig.Recv() != nil {
			ptypes = append(ptypes, sig.Recv().Type())
		}
		for i := 0; i < sig.Params().Len(); i++ {
			ptypes = append(ptypes, sig.Params().At(i).Type())
		}
		if len(ptypes) == len(args)-1 {
			// invoke: receiver is the interface value
			ptypes = append([]types.Type{nil}, ptypes...)
		}
		for i, p := range m.Params {
			if p == "_" || i >= len(args) {
				continue
			}
			var gt types.Type
			if i < len(ptypes) {
				gt = ptypes[i]
			}
			env.vars[p] = SVal{T: args[i].T, GT: gt}
		}
		if when == "after" {
			rs := sig.Results()
			for i, n := range m.Result {
				if rs.Len() == 1 && i == 0 {
					env.vars[n] = SVal{T: res.T, GT: rs.At(0).Type()}
				} else if i < len(res.Tup) {
					env.vars[n] = SVal{T: res.Tup[i].T, GT: rs.At(i).Type()}
				}
			}
		}
		x.runGhost(st, env, m.Stmts, fmt.Sprintf("%s:%s", m.Callee, when), site)
	}
}

func (x *Exec) runGhost(st *State, env *SpecEnv, stmts []*GhostStmt, what, site string) {
	for _, s := range stmts {
		env.st = st
		switch s.Kind {
		case "assert":
			lab := s.Name
			if lab == "" {
				lab = fmt.Sprintf("L%d", s.Line)
			}
			x.oblige(st, "mon", lab, site, env.boolean(s.Expr), what)
			x.assumePC(st, env.boolean(s.Expr))
		case "assume":
			x.assumed[fmt.Sprintf("assume in the contract of %s (%s, line %d): %s", x.curKey, what, s.Line, s.Expr.String())] = true
			x.assumePC(st, env.boolean(s.Expr))
		case "havoc":
			var regs []modRegion
			for _, it := range s.Then {
				regs = append(regs, x.modRegion(it.Expr, env)...)
			}
			x.havocRegions(st, st.clone(), regs)
		case "assign":
			v := env.eval(s.Expr)
			if _, ok := ghostSorts[s.Name]; !ok {
				env.errf(s.Expr, "assignment to undeclared ghost %s", s.Name)
			}
			st.setG(s.Name, v.T)
		case "assignidx":
			idx := env.eval(s.Then[0].Expr)
			v := env.eval(s.Expr)
			st.setG(s.Name, Store(st.G(s.Name), idx.T, v.T))
		case "if":
			c := env.boolean(s.Expr)
			a := st.clone()
			a.pc = And(st.pc, c)
			b := st.clone()
			b.pc = And(st.pc, Not(c))
			x.runGhost(a, env, s.Then, what, site)
			x.runGhost(b, env, s.Else, what, site)
			m := mergeStates([]*State{a, b})
			*st = *m.clone()
		}
	}
}

// accessorPath: t == acc_k(...acc_1(root)) ? returns the field path [1..k].
func accessorPath(t, root *Term) ([]int, bool) {
	var rev []int
	for t != root {
		if t.kind != kApp || len(t.Args) != 1 {
			return nil, false
		}
		i, ok := accTab[t.Op]
		if !ok {
			return nil, false
		}
		rev = append(rev, i)
		t = t.Args[0]
	}
	path := make([]int, len(rev))
	for i := range rev {
		path[i] = rev[len(rev)-1-i]
	}
	return path, true
}

func mentions(t, x *Term) bool {
	seen := map[*Term]bool{}
	var rec func(t *Term) bool
	rec = func(t *Term) bool {
		if t == x {
			return true
		}
		if seen[t] {
			return false
		}
		seen[t] = true
		for _, a := range t.Args {
			if rec(a) {
				return true
			}
		}
		return false
	}
	return rec(t)
}

func getPath(v *Term, path []int) *Term {
	for _, p := range path {
		v = Acc(v, p)
	}
	return v
}

func setPath(v *Term, path []int, nv *Term) *Term { return updPath(v, path, nv) }
