package main

// Loading of /repo with go/packages, SSA construction for the repository's own
// packages, and per-function structural information (loops, return sites).

import (
	"fmt"
	"go/constant"
	"go/token"
	"go/types"
	"os"
	"path/filepath"
	"sort"
	"strings"

	"golang.org/x/tools/go/packages"
	"golang.org/x/tools/go/ssa"
	"golang.org/x/tools/go/ssa/ssautil"
)

const repoModule = "github.com/element-of-surprise/coercion"

type World struct {
	Fset     *token.FileSet
	Prog     *ssa.Program
	Pkgs     map[string]*packages.Package // by path (all, incl. deps)
	SSAPkgs  map[string]*ssa.Package
	RepoDir  string
	Funcs    map[string]*ssa.Function // key: short name, see funcKey
	FuncList []*ssa.Function
	byName   map[string]*types.Package // package name -> package (for type parsing)
}

func isRepoPkg(path string) bool {
	return path == repoModule || strings.HasPrefix(path, repoModule+"/")
}

func loadWorld(repo string, patterns []string) (*World, error) {
	cfg := &packages.Config{
		Mode:       packages.LoadAllSyntax,
		Dir:        repo,
		BuildFlags: []string{"-tags=verif"},
		Env:        append(os.Environ(), "GOFLAGS=-mod=mod", "GOPROXY=off"),
	}
	initial, err := packages.Load(cfg, patterns...)
	if err != nil {
		return nil, err
	}
	if n := packages.PrintErrors(initial); n > 0 {
		return nil, fmt.Errorf("packages.Load: %d errors", n)
	}
	w := &World{Pkgs: map[string]*packages.Package{}, SSAPkgs: map[string]*ssa.Package{}, RepoDir: repo,
		Funcs: map[string]*ssa.Function{}, byName: map[string]*types.Package{}}
	prog, _ := ssautil.AllPackages(initial, ssa.InstantiateGenerics|ssa.GlobalDebug)
	w.Prog = prog
	w.Fset = prog.Fset
	packages.Visit(initial, nil, func(p *packages.Package) {
		w.Pkgs[p.PkgPath] = p
	})
	for path, p := range w.Pkgs {
		sp := prog.Package(p.Types)
		if sp == nil {
			continue
		}
		w.SSAPkgs[path] = sp
		if isRepoPkg(path) {
			sp.Build()
		}
	}
	// generic library code that the repo instantiates (statemachine.Run etc.) is not built; fine.
	for path, sp := range w.SSAPkgs {
		if !isRepoPkg(path) {
			continue
		}
		for fn := range ssautil.AllFunctions(prog) {
			if fn.Pkg == sp || (fn.Pkg == nil && fn.Origin() != nil && fn.Origin().Pkg == sp) {
				w.addFunc(fn)
			}
		}
	}
	sort.Slice(w.FuncList, func(i, j int) bool { return funcKey(w.FuncList[i]) < funcKey(w.FuncList[j]) })
	return w, nil
}

func (w *World) addFunc(fn *ssa.Function) {
	k := funcKey(fn)
	if _, ok := w.Funcs[k]; ok {
		return
	}
	w.Funcs[k] = fn
	w.FuncList = append(w.FuncList, fn)
}

// funcKey is the name contracts use: "<pkgname>.<ssa name>", where the ssa name is
// e.g. "(*BuildPlan).AddBlock", "New", "Plan$1". Wrappers/bounds/thunks are excluded by
// never being looked up.
func funcKey(fn *ssa.Function) string {
	pkg := fn.Pkg
	if pkg == nil && fn.Origin() != nil {
		pkg = fn.Origin().Pkg
	}
	pn := "?"
	if pkg != nil {
		pn = pkg.Pkg.Name()
	}
	return pn + "." + relName(fn)
}

func relName(fn *ssa.Function) string {
	// fn.RelString(pkg) gives "(*T).M" / "F" / "F$1"
	pkg := fn.Pkg
	if pkg == nil && fn.Origin() != nil {
		pkg = fn.Origin().Pkg
	}
	var tp *types.Package
	if pkg != nil {
		tp = pkg.Pkg
	}
	return fn.RelString(tp)
}

func (w *World) pkgByName(name string, from *types.Package) *types.Package {
	if from != nil {
		if from.Name() == name {
			return from
		}
		for _, imp := range from.Imports() {
			if imp.Name() == name {
				return imp
			}
		}
	}
	// fall back: any loaded repo package with that name, then any package
	var cand *types.Package
	for path, p := range w.Pkgs {
		if p.Types.Name() == name {
			if isRepoPkg(path) {
				return p.Types
			}
			cand = p.Types
		}
	}
	return cand
}

// parseGoType parses a small subset of Go type syntax: *T, []T, pkg.Name, Name, basic types.
func (w *World) parseGoType(s string, from *types.Package) (types.Type, error) {
	s = strings.TrimSpace(s)
	switch {
	case strings.HasPrefix(s, "*"):
		t, err := w.parseGoType(s[1:], from)
		if err != nil {
			return nil, err
		}
		return types.NewPointer(t), nil
	case strings.HasPrefix(s, "[]"):
		t, err := w.parseGoType(s[2:], from)
		if err != nil {
			return nil, err
		}
		return types.NewSlice(t), nil
	}
	if j := strings.Index(s, "["); j > 0 && strings.HasSuffix(s, "]") {
		// instantiated generic type: pkg.Name[T1,T2]
		base, err := w.parseGoType(s[:j], from)
		if err != nil {
			return nil, err
		}
		var targs []types.Type
		for _, a := range strings.Split(s[j+1:len(s)-1], ",") {
			t, err := w.parseGoType(a, from)
			if err != nil {
				return nil, err
			}
			targs = append(targs, t)
		}
		return types.Instantiate(nil, base, targs, false)
	}
	if i := strings.LastIndex(s, "."); i >= 0 {
		pn, name := s[:i], s[i+1:]
		p := w.pkgByName(pn, from)
		if p == nil {
			return nil, fmt.Errorf("unknown package %q in type %q", pn, s)
		}
		o := p.Scope().Lookup(name)
		if o == nil {
			return nil, fmt.Errorf("unknown type %q", s)
		}
		return o.Type(), nil
	}
	if o := types.Universe.Lookup(s); o != nil {
		return o.Type(), nil
	}
	if from != nil {
		if o := from.Scope().Lookup(s); o != nil {
			return o.Type(), nil
		}
	}
	return nil, fmt.Errorf("unknown type %q", s)
}

// contract files of the repo packages ---------------------------------------

func (w *World) contractFiles() []string {
	var out []string
	for path, p := range w.Pkgs {
		if !isRepoPkg(path) || len(p.GoFiles) == 0 {
			continue
		}
		dir := filepath.Dir(p.GoFiles[0])
		f := filepath.Join(dir, "zz_contracts_verif.go")
		if _, err := os.Stat(f); err == nil {
			out = append(out, f)
		}
	}
	sort.Strings(out)
	return out
}

// function structure ---------------------------------------------------------

type LoopInfo struct {
	Head    *ssa.BasicBlock
	Blocks  map[*ssa.BasicBlock]bool // body incl. head
	Latches []*ssa.BasicBlock
	Ordinal int
	RangeIx *ssa.Phi // rangeindex phi if a range-over-slice loop
	CountIx *ssa.Phi // the induction variable of a counted loop (for i := 0; ...; i++): starts at 0 outside the loop, i+1 on the back edge
}

type FuncInfo struct {
	Fn      *ssa.Function
	Order   []*ssa.BasicBlock // reverse post-order ignoring back edges
	Loops   map[*ssa.BasicBlock]*LoopInfo
	LoopOrd []*LoopInfo
	Returns map[*ssa.Return]int // ordinal (1-based) in block order
	BackEdg map[[2]int]bool
}

var funcInfoCache = map[*ssa.Function]*FuncInfo{}

func analyzeFunc(fn *ssa.Function) *FuncInfo {
	if fi, ok := funcInfoCache[fn]; ok {
		return fi
	}
	fi := &FuncInfo{Fn: fn, Loops: map[*ssa.BasicBlock]*LoopInfo{}, Returns: map[*ssa.Return]int{}, BackEdg: map[[2]int]bool{}}
	funcInfoCache[fn] = fi
	if len(fn.Blocks) == 0 {
		return fi
	}
	// back edges: edge b->h where h dominates b
	for _, b := range fn.Blocks {
		for _, s := range b.Succs {
			if s.Dominates(b) {
				fi.BackEdg[[2]int{b.Index, s.Index}] = true
				li := fi.Loops[s]
				if li == nil {
					li = &LoopInfo{Head: s, Blocks: map[*ssa.BasicBlock]bool{s: true}}
					fi.Loops[s] = li
				}
				li.Latches = append(li.Latches, b)
				// natural loop body: nodes that reach b without passing h
				stack := []*ssa.BasicBlock{b}
				for len(stack) > 0 {
					x := stack[len(stack)-1]
					stack = stack[:len(stack)-1]
					if li.Blocks[x] {
						continue
					}
					li.Blocks[x] = true
					stack = append(stack, x.Preds...)
				}
			}
		}
	}
	var heads []*ssa.BasicBlock
	for h := range fi.Loops {
		heads = append(heads, h)
	}
	sort.Slice(heads, func(i, j int) bool { return heads[i].Index < heads[j].Index })
	for i, h := range heads {
		li := fi.Loops[h]
		li.Ordinal = i + 1
		fi.LoopOrd = append(fi.LoopOrd, li)
		for _, ins := range h.Instrs {
			if phi, ok := ins.(*ssa.Phi); ok && phi.Comment == "rangeindex" {
				li.RangeIx = phi
			}
		}
		if li.RangeIx == nil {
			// a counted loop: exactly one integer phi in the head that is 0 on entry and itself plus one on every back edge
			var cands []*ssa.Phi
			for _, ins := range h.Instrs {
				phi, ok := ins.(*ssa.Phi)
				if !ok {
					continue
				}
				if b, isB := phi.Type().Underlying().(*types.Basic); !isB || b.Info()&types.IsInteger == 0 {
					continue
				}
				good := len(phi.Edges) >= 2
				sawEntry, sawBack := false, false
				for k, e := range phi.Edges {
					pred := h.Preds[k]
					if fi.BackEdg[[2]int{pred.Index, h.Index}] {
						bo, isBO := e.(*ssa.BinOp)
						if !isBO || bo.Op != token.ADD || bo.X != ssa.Value(phi) {
							good = false
							break
						}
						c, isC := bo.Y.(*ssa.Const)
						if !isC || c.Value == nil || c.Value.Kind() != constant.Int || c.Int64() != 1 {
							good = false
							break
						}
						sawBack = true
					} else {
						c, isC := e.(*ssa.Const)
						if !isC || c.Value == nil || c.Value.Kind() != constant.Int || c.Int64() != 0 {
							good = false
							break
						}
						sawEntry = true
					}
				}
				if good && sawEntry && sawBack {
					cands = append(cands, phi)
				}
			}
			if len(cands) == 1 {
				li.CountIx = cands[0]
			}
		}
	}
	// RPO ignoring back edges
	visited := map[*ssa.BasicBlock]bool{}
	var post []*ssa.BasicBlock
	var dfs func(b *ssa.BasicBlock)
	dfs = func(b *ssa.BasicBlock) {
		visited[b] = true
		for _, s := range b.Succs {
			if fi.BackEdg[[2]int{b.Index, s.Index}] || visited[s] {
				continue
			}
			dfs(s)
		}
		post = append(post, b)
	}
	dfs(fn.Blocks[0])
	if fn.Recover != nil && !visited[fn.Recover] {
		// recover block is only reachable through panics; not executed.
	}
	for i := len(post) - 1; i >= 0; i-- {
		fi.Order = append(fi.Order, post[i])
	}
	n := 0
	for _, b := range fn.Blocks {
		for _, ins := range b.Instrs {
			if r, ok := ins.(*ssa.Return); ok {
				n++
				fi.Returns[r] = n
			}
		}
	}
	return fi
}

// fnTypesPkg: the types.Package a function belongs to (instantiations of generic functions have no ssa package of their
// own: their origin's package is used).
func fnTypesPkg(fn *ssa.Function) *types.Package {
	if fn == nil {
		return nil
	}
	if fn.Pkg != nil {
		return fn.Pkg.Pkg
	}
	if o := fn.Origin(); o != nil && o.Pkg != nil {
		return o.Pkg.Pkg
	}
	if fn.Parent() != nil {
		return fnTypesPkg(fn.Parent())
	}
	return nil
}
