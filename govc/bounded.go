package main

// Bounded stand-in (labelled bounded, never counted as proved): the SQL text built by (reader).buildSearchQuery.
// String building (strings.Builder, Sprintf, Replace) is outside what the solvers decide, so for every filter shape with
// |ByIDs| <= 2, |ByGroupIDs| <= 2, |ByStatus| <= 3 the REAL function is run (go test -overlay, nothing written to the
// repository), its output is parsed with a parser for the SQL subset it is meant to produce, and the meaning of the WHERE
// clause is compared with the filter semantics of the property statement on every row of a small universe
// (3 ids x 3 groups x 4 statuses): a plan matches iff its id is one of the ids (if any are given), its group one of the
// group ids (if any), and its status one of the statuses (if any); newest submission first.

import (
	"encoding/json"
	"fmt"
	"os"
	"os/exec"
	"path/filepath"
	"regexp"
	"strings"
)

type boundedResult struct {
	Name   string
	OK     bool
	Detail string
	Input  string
}

const searchHarness = `package sqlite

import (
	"encoding/json"
	"fmt"
	"testing"

	"github.com/element-of-surprise/coercion/workflow"
	"github.com/element-of-surprise/coercion/workflow/storage"
	"github.com/google/uuid"
)

func TestZZGovcBoundedSearchQuery(t *testing.T) {
	ids := []uuid.UUID{uuid.MustParse("00000000-0000-7000-8000-0000000000a0"), uuid.MustParse("00000000-0000-7000-8000-0000000000a1")}
	gids := []uuid.UUID{uuid.MustParse("00000000-0000-7000-8000-0000000000b0"), uuid.MustParse("00000000-0000-7000-8000-0000000000b1")}
	sts := []workflow.Status{workflow.Running, workflow.Completed, workflow.Failed}
	for ni := 0; ni <= 2; ni++ {
		for ng := 0; ng <= 2; ng++ {
			for ns := 0; ns <= 3; ns++ {
				if ni+ng+ns == 0 {
					continue
				}
				f := storage.Filters{ByIDs: ids[:ni], ByGroupIDs: gids[:ng], ByStatus: sts[:ns]}
				q, args, named := reader{}.buildSearchQuery(f)
				var as []string
				for _, a := range args {
					as = append(as, fmt.Sprint(a))
				}
				nm := map[string]string{}
				for k, v := range named {
					nm[k] = fmt.Sprint(v)
				}
				var wantSt []string
				for _, s := range sts[:ns] {
					wantSt = append(wantSt, fmt.Sprint(int64(s)))
				}
				b, _ := json.Marshal(map[string]any{"ni": ni, "ng": ng, "ns": ns, "q": q, "args": as, "named": nm, "statuses": wantSt})
				fmt.Println("GOVC-BOUNDED " + string(b))
			}
		}
	}
}
`

type searchCase struct {
	NI, NG, NS int
	Q          string
	Args       []string
	Named      map[string]string
	Statuses   []string
}

func boundedSearchQuery(repo string) ([]boundedResult, error) {
	dir, err := os.MkdirTemp("", "govc-bounded-")
	if err != nil {
		return nil, err
	}
	defer os.RemoveAll(dir)
	tf := filepath.Join(dir, "zz_govc_bounded_test.go")
	if err := os.WriteFile(tf, []byte(searchHarness), 0o644); err != nil {
		return nil, err
	}
	ov := filepath.Join(dir, "ov.json")
	ovb, _ := json.Marshal(map[string]any{"Replace": map[string]string{filepath.Join(repo, "workflow/storage/sqlite/zz_govc_bounded_test.go"): tf}})
	os.WriteFile(ov, ovb, 0o644)
	cmd := exec.Command("go", "test", "-overlay", ov, "-vet=off", "-count=1", "-v", "-timeout", "120s", "-run", "TestZZGovcBoundedSearchQuery", "./workflow/storage/sqlite/")
	cmd.Dir = repo
	cmd.Env = append(os.Environ(), "GOFLAGS=-mod=mod", "GOPROXY=off")
	out, err := cmd.CombinedOutput()
	var cases []searchCase
	for _, ln := range strings.Split(string(out), "\n") {
		if i := strings.Index(ln, "GOVC-BOUNDED "); i >= 0 {
			var raw struct {
				NI       int               `json:"ni"`
				NG       int               `json:"ng"`
				NS       int               `json:"ns"`
				Q        string            `json:"q"`
				Args     []string          `json:"args"`
				Named    map[string]string `json:"named"`
				Statuses []string          `json:"statuses"`
			}
			if json.Unmarshal([]byte(ln[i+len("GOVC-BOUNDED "):]), &raw) == nil {
				cases = append(cases, searchCase{raw.NI, raw.NG, raw.NS, raw.Q, raw.Args, raw.Named, raw.Statuses})
			}
		}
	}
	if len(cases) == 0 {
		return nil, fmt.Errorf("bounded sql-search: the harness produced no case (go test: %v)\n%s", err, firstLines(string(out), 15))
	}
	var res []boundedResult
	for _, c := range cases {
		name := fmt.Sprintf("bounded sql-search[ids=%d,groups=%d,statuses=%d]", c.NI, c.NG, c.NS)
		in, _ := json.Marshal(c)
		ok, detail := checkSearchCase(c)
		res = append(res, boundedResult{Name: name, OK: ok, Detail: detail, Input: string(in)})
	}
	return res, nil
}

// a node of the WHERE clause: and / or over kids, or a leaf "column is one of vals" (column IN (values) / column = value)
type sqlNode struct {
	op   string // "and", "or", "" (leaf)
	kids []*sqlNode
	col  string
	vals []string // resolved values
}

func (n *sqlNode) eval(id, g, s string) bool {
	switch n.op {
	case "and":
		for _, k := range n.kids {
			if !k.eval(id, g, s) {
				return false
			}
		}
		return true
	case "or":
		for _, k := range n.kids {
			if k.eval(id, g, s) {
				return true
			}
		}
		return false
	}
	v := s
	switch n.col {
	case "id":
		v = id
	case "group_id":
		v = g
	}
	for _, x := range n.vals {
		if x == v {
			return true
		}
	}
	return false
}

var (
	selRe   = regexp.MustCompile(`(?is)^\s*select\s+id\s*,\s*group_id\s*,\s*name\s*,\s*descr\s*,\s*submit_time\s*,\s*state_status\s*,\s*state_start\s*,\s*state_end\s+from\s+plans\s+where\s+(.*?)\s+order\s+by\s+submit_time\s+desc\s*;?\s*$`)
	inRe    = regexp.MustCompile(`(?is)^(id|group_id)\s+in\s*\(\s*(\?(?:\s*,\s*\?)*)\s*\)$`)
	eqRe    = regexp.MustCompile(`(?is)^state_status\s*=\s*(\$[a-z0-9_]+)$`)
	andSpl  = regexp.MustCompile(`(?i)\s+and\s+`)
	orSplit = regexp.MustCompile(`(?i)\s+or\s+`)
)

// splitTop splits s at the separator regexp, outside parentheses.
func splitTop(s string, sep *regexp.Regexp) []string {
	var out []string
	depth := 0
	last := 0
	locs := sep.FindAllStringIndex(s, -1)
	li := 0
	for i := 0; i < len(s); i++ {
		switch s[i] {
		case '(':
			depth++
		case ')':
			depth--
		}
		for li < len(locs) && locs[li][0] < i {
			li++
		}
		if li < len(locs) && locs[li][0] == i && depth == 0 {
			out = append(out, s[last:i])
			last = locs[li][1]
			i = locs[li][1] - 1
			li++
		}
	}
	return append(out, s[last:])
}

func checkSearchCase(c searchCase) (bool, string) {
	m := selRe.FindStringSubmatch(c.Q)
	if m == nil {
		return false, "query is not `SELECT <the eight listed columns> FROM plans WHERE ... ORDER BY submit_time DESC`: " + c.Q
	}
	where := strings.TrimSpace(m[1])
	// the WHERE clause is read with SQL's precedence (AND binds tighter than OR, parentheses group):
	//   expr := conj { OR conj } ; conj := atom { AND atom } ; atom := ( expr ) | id|group_id IN (?,..) | state_status = $p
	// positional arguments are consumed in textual order
	argPos := 0
	var perr string
	var parseExpr func(t string) *sqlNode
	parseAtom := func(t string) *sqlNode {
		t = strings.TrimSpace(t)
		if im := inRe.FindStringSubmatch(t); im != nil {
			n := strings.Count(im[2], "?")
			if argPos+n > len(c.Args) {
				perr = fmt.Sprintf("%d placeholders but only %d positional arguments: %s", argPos+n, len(c.Args), c.Q)
				return nil
			}
			nd := &sqlNode{col: strings.ToLower(im[1]), vals: c.Args[argPos : argPos+n]}
			argPos += n
			return nd
		}
		if em := eqRe.FindStringSubmatch(t); em != nil {
			v, bound := c.Named[em[1]]
			if !bound {
				perr = fmt.Sprintf("parameter %s is not bound: %s", em[1], c.Q)
				return nil
			}
			return &sqlNode{col: "state_status", vals: []string{v}}
		}
		if strings.HasPrefix(t, "(") && strings.HasSuffix(t, ")") && len(splitTop(t, orSplit)) == 1 && len(splitTop(t, andSpl)) == 1 {
			return parseExpr(t[1 : len(t)-1])
		}
		perr = fmt.Sprintf("WHERE term %q is outside the SQL subset (col IN (?,..) | state_status = $p | AND | OR | parentheses): %s", t, c.Q)
		return nil
	}
	parseExpr = func(t string) *sqlNode {
		or := &sqlNode{op: "or"}
		for _, d := range splitTop(strings.TrimSpace(t), orSplit) {
			and := &sqlNode{op: "and"}
			for _, a := range splitTop(strings.TrimSpace(d), andSpl) {
				nd := parseAtom(a)
				if nd == nil {
					return nil
				}
				and.kids = append(and.kids, nd)
			}
			or.kids = append(or.kids, and)
		}
		return or
	}
	root := parseExpr(where)
	if root == nil {
		return false, perr
	}
	if argPos != len(c.Args) {
		return false, fmt.Sprintf("%d positional arguments but %d placeholders: %s", len(c.Args), argPos, c.Q)
	}
	// the small universe
	ids := []string{"00000000-0000-7000-8000-0000000000a0", "00000000-0000-7000-8000-0000000000a1", "00000000-0000-7000-8000-0000000000af"}
	gids := []string{"00000000-0000-7000-8000-0000000000b0", "00000000-0000-7000-8000-0000000000b1", "00000000-0000-7000-8000-0000000000bf"}
	sts := append(append([]string{}, c.Statuses...), "-7")
	for len(sts) < 4 {
		sts = append(sts, fmt.Sprint(-8-len(sts)))
	}
	in := func(v string, set []string) bool {
		for _, s := range set {
			if s == v {
				return true
			}
		}
		return false
	}
	for _, id := range ids {
		for _, g := range gids {
			for _, s := range sts {
				want := (c.NI == 0 || in(id, ids[:c.NI])) && (c.NG == 0 || in(g, gids[:c.NG])) && (c.NS == 0 || in(s, c.Statuses))
				got := root.eval(id, g, s)
				if got != want {
					return false, fmt.Sprintf("a plan with id=%s group=%s status=%s: the statement says %v, the query says %v: %s", id[len(id)-2:], g[len(g)-2:], s, want, got, c.Q)
				}
			}
		}
	}
	return true, ""
}

// ---------------------------------------------------------------------------------------------------------------------
// The same bounded stand-in for the Cosmos DB vault's (reader).buildSearchQuery (it was a trusted contract before): the real
// function is run on the same 35 filter shapes; the query must be SELECT <the eight result fields> FROM c WHERE <expr>
// ORDER BY c.submitTime DESC, <expr> over the atoms c.swarm=@swarm, ARRAY_CONTAINS(@ids, c.id),
// ARRAY_CONTAINS(@group_ids, c.groupID), c.stateStatus = @statusN with AND / OR / parentheses (SQL precedence); every
// parameter it names must be among the query parameters returned, @swarm bound to the reader's swarm. Its meaning is
// compared with the statement's on a universe of 2 swarms x 3 ids x 3 groups x 4 statuses: a plan of another swarm never
// matches.

const cosmosSearchHarness = `package cosmosdb

import (
	"encoding/json"
	"fmt"
	"testing"

	"github.com/element-of-surprise/coercion/workflow"
	"github.com/element-of-surprise/coercion/workflow/storage"
	"github.com/google/uuid"
)

func TestZZGovcBoundedCosmosSearchQuery(t *testing.T) {
	ids := []uuid.UUID{uuid.MustParse("00000000-0000-7000-8000-0000000000a0"), uuid.MustParse("00000000-0000-7000-8000-0000000000a1")}
	gids := []uuid.UUID{uuid.MustParse("00000000-0000-7000-8000-0000000000b0"), uuid.MustParse("00000000-0000-7000-8000-0000000000b1")}
	sts := []workflow.Status{workflow.Running, workflow.Completed, workflow.Failed}
	for ni := 0; ni <= 2; ni++ {
		for ng := 0; ng <= 2; ng++ {
			for ns := 0; ns <= 3; ns++ {
				if ni+ng+ns == 0 {
					continue
				}
				f := storage.Filters{ByIDs: ids[:ni], ByGroupIDs: gids[:ng], ByStatus: sts[:ns]}
				q, params := reader{swarm: "sw0"}.buildSearchQuery(f)
				nm := map[string][]string{}
				for _, p := range params {
					var vs []string
					switch v := p.Value.(type) {
					case []uuid.UUID:
						for _, u := range v {
							vs = append(vs, u.String())
						}
					default:
						vs = []string{fmt.Sprint(v)}
					}
					if _, dup := nm[p.Name]; dup {
						vs = []string{"<duplicate parameter>"}
					}
					nm[p.Name] = vs
				}
				var wantSt []string
				for _, s := range sts[:ns] {
					wantSt = append(wantSt, fmt.Sprint(int64(s)))
				}
				b, _ := json.Marshal(map[string]any{"ni": ni, "ng": ng, "ns": ns, "q": q, "params": nm, "statuses": wantSt})
				fmt.Println("GOVC-BOUNDED " + string(b))
			}
		}
	}
}
`

type cosmosCase struct {
	NI       int                 `json:"ni"`
	NG       int                 `json:"ng"`
	NS       int                 `json:"ns"`
	Q        string              `json:"q"`
	Params   map[string][]string `json:"params"`
	Statuses []string            `json:"statuses"`
}

var (
	cosmosSelRe = regexp.MustCompile(`(?is)^\s*select\s+c\.id\s*,\s*c\.groupID\s*,\s*c\.name\s*,\s*c\.descr\s*,\s*c\.submitTime\s*,\s*c\.stateStatus\s*,\s*c\.stateStart\s*,\s*c\.stateEnd\s+from\s+c\s+where\s+(.*?)\s+order\s+by\s+c\.submitTime\s+desc\s*;?\s*$`)
	cosmosSwarm = regexp.MustCompile(`(?is)^c\.swarm\s*=\s*(@[a-z0-9_]+)$`)
	cosmosArr   = regexp.MustCompile(`(?is)^array_contains\(\s*(@[a-z0-9_]+)\s*,\s*c\.(id|groupID)\s*\)$`)
	cosmosEq    = regexp.MustCompile(`(?is)^c\.stateStatus\s*=\s*(@[a-z0-9_]+)$`)
)

func boundedCosmosSearchQuery(repo string) ([]boundedResult, error) {
	dir, err := os.MkdirTemp("", "govc-bounded-")
	if err != nil {
		return nil, err
	}
	defer os.RemoveAll(dir)
	tf := filepath.Join(dir, "zz_govc_bounded_test.go")
	if err := os.WriteFile(tf, []byte(cosmosSearchHarness), 0o644); err != nil {
		return nil, err
	}
	ov := filepath.Join(dir, "ov.json")
	ovb, _ := json.Marshal(map[string]any{"Replace": map[string]string{filepath.Join(repo, "workflow/storage/cosmosdb/zz_govc_bounded_test.go"): tf}})
	os.WriteFile(ov, ovb, 0o644)
	cmd := exec.Command("go", "test", "-overlay", ov, "-vet=off", "-count=1", "-v", "-timeout", "180s", "-run", "TestZZGovcBoundedCosmosSearchQuery", "./workflow/storage/cosmosdb/")
	cmd.Dir = repo
	cmd.Env = append(os.Environ(), "GOFLAGS=-mod=mod", "GOPROXY=off")
	out, err := cmd.CombinedOutput()
	var cases []cosmosCase
	for _, ln := range strings.Split(string(out), "\n") {
		if i := strings.Index(ln, "GOVC-BOUNDED "); i >= 0 {
			var raw cosmosCase
			if json.Unmarshal([]byte(ln[i+len("GOVC-BOUNDED "):]), &raw) == nil {
				cases = append(cases, raw)
			}
		}
	}
	if len(cases) == 0 {
		return nil, fmt.Errorf("bounded cosmos-search: the harness produced no case (go test: %v)\n%s", err, firstLines(string(out), 15))
	}
	var res []boundedResult
	for _, c := range cases {
		name := fmt.Sprintf("cosmos-search[ids=%d,groups=%d,statuses=%d]", c.NI, c.NG, c.NS)
		in, _ := json.Marshal(c)
		ok, detail := checkCosmosCase(c)
		res = append(res, boundedResult{Name: name, OK: ok, Detail: detail, Input: string(in)})
	}
	return res, nil
}

func checkCosmosCase(c cosmosCase) (bool, string) {
	m := cosmosSelRe.FindStringSubmatch(c.Q)
	if m == nil {
		return false, "query is not `SELECT <the eight listed fields> FROM c WHERE ... ORDER BY c.submitTime DESC`: " + c.Q
	}
	var perr string
	used := map[string]bool{}
	param := func(p string) ([]string, bool) {
		v, ok := c.Params[p]
		if !ok {
			perr = fmt.Sprintf("parameter %s is not among the query parameters: %s", p, c.Q)
			return nil, false
		}
		used[p] = true
		return v, true
	}
	var parseExpr func(t string) *sqlNode
	parseAtom := func(t string) *sqlNode {
		t = strings.TrimSpace(t)
		if sm := cosmosSwarm.FindStringSubmatch(t); sm != nil {
			v, ok := param(sm[1])
			if !ok {
				return nil
			}
			return &sqlNode{col: "swarm", vals: v}
		}
		if am := cosmosArr.FindStringSubmatch(t); am != nil {
			v, ok := param(am[1])
			if !ok {
				return nil
			}
			col := "id"
			if strings.EqualFold(am[2], "groupID") {
				col = "group_id"
			}
			return &sqlNode{col: col, vals: v}
		}
		if em := cosmosEq.FindStringSubmatch(t); em != nil {
			v, ok := param(em[1])
			if !ok {
				return nil
			}
			return &sqlNode{col: "state_status", vals: v}
		}
		if strings.HasPrefix(t, "(") && strings.HasSuffix(t, ")") && len(splitTop(t, orSplit)) == 1 && len(splitTop(t, andSpl)) == 1 {
			return parseExpr(t[1 : len(t)-1])
		}
		perr = fmt.Sprintf("WHERE term %q is outside the subset (c.swarm=@p | ARRAY_CONTAINS(@p, c.id|c.groupID) | c.stateStatus = @p | AND | OR | parentheses): %s", t, c.Q)
		return nil
	}
	parseExpr = func(t string) *sqlNode {
		or := &sqlNode{op: "or"}
		for _, d := range splitTop(strings.TrimSpace(t), orSplit) {
			and := &sqlNode{op: "and"}
			for _, a := range splitTop(strings.TrimSpace(d), andSpl) {
				nd := parseAtom(a)
				if nd == nil {
					return nil
				}
				and.kids = append(and.kids, nd)
			}
			or.kids = append(or.kids, and)
		}
		return or
	}
	root := parseExpr(strings.TrimSpace(m[1]))
	if root == nil {
		return false, perr
	}
	for p, v := range c.Params {
		if len(v) == 1 && v[0] == "<duplicate parameter>" {
			return false, fmt.Sprintf("parameter %s is given twice: %s", p, c.Q)
		}
	}
	ids := []string{"00000000-0000-7000-8000-0000000000a0", "00000000-0000-7000-8000-0000000000a1", "00000000-0000-7000-8000-0000000000af"}
	gids := []string{"00000000-0000-7000-8000-0000000000b0", "00000000-0000-7000-8000-0000000000b1", "00000000-0000-7000-8000-0000000000bf"}
	sts := append(append([]string{}, c.Statuses...), "-7")
	for len(sts) < 4 {
		sts = append(sts, fmt.Sprint(-8-len(sts)))
	}
	in := func(v string, set []string) bool {
		for _, s := range set {
			if s == v {
				return true
			}
		}
		return false
	}
	for _, sw := range []string{"sw0", "another-swarm"} {
		for _, id := range ids {
			for _, g := range gids {
				for _, s := range sts {
					want := sw == "sw0" && (c.NI == 0 || in(id, ids[:c.NI])) && (c.NG == 0 || in(g, gids[:c.NG])) && (c.NS == 0 || in(s, c.Statuses))
					got := root.evalRow(map[string]string{"swarm": sw, "id": id, "group_id": g, "state_status": s})
					if got != want {
						return false, fmt.Sprintf("a plan of swarm %s with id=%s group=%s status=%s: the statement says %v, the query says %v: %s", sw, id[len(id)-2:], g[len(g)-2:], s, want, got, c.Q)
					}
				}
			}
		}
	}
	return true, ""
}

// evalRow: like eval, over a row given by column name
func (n *sqlNode) evalRow(row map[string]string) bool {
	switch n.op {
	case "and":
		for _, k := range n.kids {
			if !k.evalRow(row) {
				return false
			}
		}
		return true
	case "or":
		for _, k := range n.kids {
			if k.evalRow(row) {
				return true
			}
		}
		return false
	}
	v := row[n.col]
	for _, x := range n.vals {
		if x == v {
			return true
		}
	}
	return false
}
