package main

// Registered (trusted) rules for library entry points, and the concurrency typestate.

import (
	"go/types"

	"golang.org/x/tools/go/ssa"
)

type ruleFn func(x *Exec, fr *Frame, st *State, ins ssa.Instruction, sig *types.Signature, args []Value) Value

var rules = map[string]ruleFn{}
var rulesInvoke = map[string]ruleFn{}

func init() {
	rules["errors.New"] = ruleNewError
	rules["fmt.Errorf"] = ruleNewError
	rules["strings.TrimSpace"] = func(x *Exec, fr *Frame, st *State, ins ssa.Instruction, sig *types.Signature, args []Value) Value {
		return Value{T: UF("strings.TrimSpace", sortStr, args[0].T)}
	}
	rules["fmt.Sprintf"] = func(x *Exec, fr *Frame, st *State, ins ssa.Instruction, sig *types.Signature, args []Value) Value {
		return Value{T: Fresh("sprintf", sortStr)}
	}
}

func init() {
	// deep.MustCopy[T]: trusted to return a deep, unshared copy; its value is the uninterpreted deepcopy(x)
	rulePrefixes["deep.MustCopy["] = func(x *Exec, fr *Frame, st *State, ins ssa.Instruction, sig *types.Signature, args []Value) Value {
		x.assumed["library: deep.MustCopy returns a deep copy that shares no memory with its argument (its value is the uninterpreted deepcopy(x); nil for nil)"] = true
		rt := sig.Results().At(0).Type()
		r := UF("deepcopy_"+sortTag(sortOf(rt)), sortOf(rt), args[0].T)
		x.assume(st, x.wf(st, r, rt))
		if sortOf(rt) == sortIface {
			x.assume(st, Eq(Acc(r, 0), Acc(args[0].T, 0)))
		}
		return Value{T: r}
	}
	// clone.Secure is a reflect walk (not interpreted, see C17). A-secure-frame: it writes only the Req of
	// Actions and the Resp of Attempts reachable from its argument, which in every clone function is the
	// object under construction: objects allocated since the entry of the function under verification.
	rules["clone.Secure"] = func(x *Exec, fr *Frame, st *State, ins ssa.Instruction, sig *types.Signature, args []Value) Value {
		x.assumed["A-secure-frame: clone.Secure (reflect, not interpreted) replaces only Action.Req / Attempt.Resp values of objects allocated by the clone under construction, by scrub(value)"] = true
		for _, k := range []string{"H_workflow_Action_Req", "H_workflow_Attempt_Resp"} {
			hs, ok := heapSorts[k]
			if !ok {
				continue
			}
			h := st.H(k, hs)
			nh := freshHeap(st, k, "secured")
			r := BoundVar("q_r", "Int")
			lim := fr.top.entry.alloc
			x.assume(st, Forall([]*Term{r}, [][]*Term{{Select(nh, r)}},
				Eq(Select(nh, r), Ite(Ge(r, lim), UF("scrub", sortIface, Select(h, r)), Select(h, r)))))
			st.setH(k, nh)
		}
		return x.resultValue(st, "secure_err", sig.Results())
	}
}

var rulePrefixes = map[string]ruleFn{}

func ruleFor(key string) ruleFn {
	if r, ok := rules[key]; ok {
		return r
	}
	for p, r := range rulePrefixes {
		if len(key) >= len(p) && key[:len(p)] == p {
			return r
		}
	}
	return nil
}

// ruleNewError: errors.New / fmt.Errorf return a non-nil error that is a newly allocated object.
func ruleNewError(x *Exec, fr *Frame, st *State, ins ssa.Instruction, sig *types.Signature, args []Value) Value {
	tag := Fresh("errtag", "Int")
	x.assume(st, Gt(tag, Int(0)))
	ref := x.newRef(st)
	x.assumed["library: errors.New / fmt.Errorf return a non-nil, newly allocated error"] = true
	return Value{T: Mk(sortIface, tag, ref)}
}

// concurrency (filled in by the fork/join and channel typestate layer) -------------------

func (x *Exec) doMakeChan(fr *Frame, st *State, ins *ssa.MakeChan) Value {
	unsup("make(chan) outside the channel typestate layer")
	return Value{}
}
func (x *Exec) chanCap(st *State, ch *Term) *Term { unsup("cap(chan)"); return nil }
func (x *Exec) doClose(fr *Frame, st *State, ins ssa.Instruction, ch Value) {
	unsup("close(chan)")
}
func (x *Exec) doGo(fr *Frame, st *State, ins *ssa.Go)     { unsup("go statement") }
func (x *Exec) doSend(fr *Frame, st *State, ins *ssa.Send) { unsup("channel send") }
func (x *Exec) doSelect(fr *Frame, st *State, ins *ssa.Select) Value {
	unsup("select")
	return Value{}
}
func (x *Exec) doRecv(fr *Frame, st *State, ins *ssa.UnOp, ch Value) Value {
	unsup("channel receive")
	return Value{}
}
