package main

// Registered (trusted) rules for library entry points, and the concurrency typestate.

import (
	"fmt"
	"go/types"
	"sort"
	"strings"

	"golang.org/x/tools/go/ssa"
)

type ruleFn func(x *Exec, fr *Frame, st *State, ins ssa.Instruction, sig *types.Signature, args []Value) Value

var rules = map[string]ruleFn{}
var rulesInvoke = map[string]ruleFn{}

func init() {
	rules["errors.New"] = ruleNewError
	rules["fmt.Errorf"] = ruleNewError
	rules["strings.TrimSpace"] = func(x *Exec, fr *Frame, st *State, ins ssa.Instruction, sig *types.Signature, args []Value) Value {
		return Value{T: trimSpaceTerm(args[0].T)}
	}
	rules["fmt.Sprintf"] = func(x *Exec, fr *Frame, st *State, ins ssa.Instruction, sig *types.Signature, args []Value) Value {
		return Value{T: Fresh("sprintf", sortStr)}
	}
}

func init() {
	// deep.MustCopy[T]: trusted to return a deep, unshared copy; its value is the uninterpreted deepcopy(x)
	rulePrefixes["deep.MustCopy["] = func(x *Exec, fr *Frame, st *State, ins ssa.Instruction, sig *types.Signature, args []Value) Value {
		x.assumed["library: deep.MustCopy returns a deep copy that shares no memory with its argument (its value is the uninterpreted deepcopy(x); nil for nil)"] = true
		rt := sig.Results().At(0).Type()
		r := UF("deepcopy_"+sortTag(sortOf(rt)), sortOf(rt), args[0].T)
		x.assume(st, x.wf(st, r, rt))
		if sortOf(rt) == sortIface {
			x.assume(st, Eq(Acc(r, 0), Acc(args[0].T, 0)))
		}
		return Value{T: r}
	}
	// clone.Secure is a reflect walk (not interpreted, see C17). A-secure-frame: it writes only the Req of
	// Actions and the Resp of Attempts reachable from its argument, which in every clone function is the
	// object under construction: objects allocated since the entry of the function under verification.
	rules["clone.Secure"] = func(x *Exec, fr *Frame, st *State, ins ssa.Instruction, sig *types.Signature, args []Value) Value {
		x.assumed["A-secure-frame: clone.Secure (reflect, not interpreted) replaces only Action.Req / Attempt.Resp values of objects allocated by the clone under construction, by scrub(value)"] = true
		for _, k := range []string{"H_workflow_Action_Req", "H_workflow_Attempt_Resp"} {
			hs, ok := heapSorts[k]
			if !ok {
				continue
			}
			h := st.H(k, hs)
			nh := freshHeap(st, k, "secured")
			r := BoundVar("q_r", "Int")
			lim := fr.top.entry.alloc
			x.assume(st, Forall([]*Term{r}, [][]*Term{{Select(nh, r)}},
				Eq(Select(nh, r), Ite(Ge(r, lim), UF("scrub", sortIface, Select(h, r)), Select(h, r)))))
			st.setH(k, nh)
		}
		return x.resultValue(st, "secure_err", sig.Results())
	}
}

var rulePrefixes = map[string]ruleFn{}

// trimSpaceTerm: strings.TrimSpace is uninterpreted, except on literals where it is computed.
func trimSpaceTerm(t *Term) *Term {
	if s, ok := strLitOf[t]; ok {
		return strLit(strings.TrimSpace(s))
	}
	return UF("strings.TrimSpace", sortStr, t)
}

func init() {
	ghostSorts["clock"] = "Int"
	// process exit: the path ends
	for _, k := range []string{"log.Fatalf", "log.Fatal", "log.Fatalln", "os.Exit", "log.Panicf"} {
		rules[k] = func(x *Exec, fr *Frame, st *State, ins ssa.Instruction, sig *types.Signature, args []Value) Value {
			x.assumed["library: log.Fatalf / os.Exit do not return"] = true
			st.pc = False
			return x.zeroValue(sig.Results())
		}
	}
	// A-clock: successive time.Now() values do not decrease and are after the zero time
	rules["time.Now"] = func(x *Exec, fr *Frame, st *State, ins ssa.Instruction, sig *types.Signature, args []Value) Value {
		x.assumed["A-clock: successive time.Now() values do not decrease; time.Time is modelled as integer nanoseconds with the zero time below every clock value"] = true
		t := Fresh("now", "Int")
		x.assume(st, And(Gt(t, Int(0)), Gt(t, unixEpoch()), Ge(t, st.G("clock"))))
		st.setG("clock", t)
		return Value{T: t}
	}
	ident := func(x *Exec, fr *Frame, st *State, ins ssa.Instruction, sig *types.Signature, args []Value) Value { return args[0] }
	rules["time.(Time).UTC"] = ident
	rules["time.(Time).Local"] = ident
	rules["time.(Time).IsZero"] = func(x *Exec, fr *Frame, st *State, ins ssa.Instruction, sig *types.Signature, args []Value) Value {
		return Value{T: Eq(args[0].T, Int(0))}
	}
	rules["time.(Time).Before"] = func(x *Exec, fr *Frame, st *State, ins ssa.Instruction, sig *types.Signature, args []Value) Value {
		return Value{T: Lt(args[0].T, args[1].T)}
	}
	rules["time.(Time).After"] = func(x *Exec, fr *Frame, st *State, ins ssa.Instruction, sig *types.Signature, args []Value) Value {
		return Value{T: Gt(args[0].T, args[1].T)}
	}
	rules["time.(Time).Equal"] = func(x *Exec, fr *Frame, st *State, ins ssa.Instruction, sig *types.Signature, args []Value) Value {
		return Value{T: Eq(args[0].T, args[1].T)}
	}
	rules["time.(Time).Add"] = func(x *Exec, fr *Frame, st *State, ins ssa.Instruction, sig *types.Signature, args []Value) Value {
		return Value{T: Add(args[0].T, args[1].T)}
	}
	rules["time.(Time).Sub"] = func(x *Exec, fr *Frame, st *State, ins ssa.Instruction, sig *types.Signature, args []Value) Value {
		return Value{T: Sub(args[0].T, args[1].T)}
	}
	rules["time.Since"] = func(x *Exec, fr *Frame, st *State, ins ssa.Instruction, sig *types.Signature, args []Value) Value {
		return Value{T: Fresh("since", "Int")}
	}
	// time.NewTimer / time.NewTicker: a new timer object with a new channel C
	newTimer := func(x *Exec, fr *Frame, st *State, ins ssa.Instruction, sig *types.Signature, args []Value) Value {
		pt := sig.Results().At(0).Type()
		et := pt.Underlying().(*types.Pointer).Elem()
		v := x.doAlloc(st, et, "")
		su := et.Underlying().(*types.Struct)
		if i := fieldIndex(su, "C"); i >= 0 {
			c := x.newRef(st)
			gSet(st, "chClosed", c, False)
			gSet(st, "chCloser", c, False)
			gSet(st, "chExt", c, True)
			gSet(st, "chLen", c, Int(0))
			gSet(st, "chSeenClosed", c, False)
			gSet(st, "chErrSeen", c, False)
			x.writeLV(st, x.fieldLV(v, et, i), c)
		}
		return Value{T: v.T}
	}
	rules["time.NewTimer"] = newTimer
	rules["time.NewTicker"] = newTimer
	rulePrefixes["statemachine.Run["] = ruleStatemachineRun
	rules["exponential.(*Backoff).Retry"] = ruleRetry
	// reflect.TypeOf(x): the dynamic type of x, i.e. its tag (nil for a nil interface)
	rules["reflect.TypeOf"] = func(x *Exec, fr *Frame, st *State, ins ssa.Instruction, sig *types.Signature, args []Value) Value {
		tag := Acc(args[0].T, 0)
		return Value{T: Ite(Eq(tag, Int(0)), NilIface(), Mk(sortIface, typeTag(types.Typ[types.Uintptr]), tag))}
	}
	// a plugin's declared response type is fixed: Response() is a pure function of the plugin
	rulesInvoke["plugins.Plugin.Response"] = func(x *Exec, fr *Frame, st *State, ins ssa.Instruction, sig *types.Signature, args []Value) Value {
		x.assumed["plugins: Plugin.Response() is a pure function of the plugin (its declared response type is fixed)"] = true
		r := UF("plugin_Response", sortIface, args[0].T)
		x.assume(st, x.wf(st, r, sig.Results().At(0).Type()))
		return Value{T: r}
	}
}

// ruleRetry: (*exponential.Backoff).Retry(ctx, op) as read from github.com/Azure/retry: op is called at least once;
// after a call that returned nil Retry returns nil; after a call whose error is permanent, or when the policy or the
// context gives up, it returns a non-nil error; there is no call after a nil result. The op closure is verified in
// place against the invariant declared as `invariant retry N:` in the contract of the calling function: it holds
// before the first call, every call preserves it, and Retry returns in the state right after some call.
func ruleRetry(x *Exec, fr *Frame, st *State, ins ssa.Instruction, sig *types.Signature, args []Value) Value {
	x.assumed["library: exponential.Backoff.Retry calls op at least once, stops after the first nil result (returning nil), otherwise returns a non-nil error; read from github.com/Azure/retry"] = true
	op := args[2]
	if op.Clo == nil {
		op.Clo = x.closureOf(op.T)
	}
	if op.Clo == nil {
		unsup("Retry of an unknown function value")
	}
	con := x.contractForFrame(fr.top)
	x.retryOrd[fr.fn]++
	n := x.retryOrd[fr.fn]
	var invs []Clause
	if con != nil {
		invs = con.Invs[1000+n]
	}
	site := x.site(fr, ins)
	evalInv := func(s *State, c Clause) *Term {
		env := &SpecEnv{x: x, vars: map[string]SVal{}, st: s, old: fr.top.entry, pkg: fnTypesPkg(fr.top.fn), lets: map[string]*Expr{}, fr: fr.top, free: x.freeOf[con]}
		for i, p := range con.Params {
			if i < len(fr.top.params) && i < len(fr.top.fn.Params) {
				env.vars[p] = SVal{T: fr.top.params[i].T, GT: fr.top.fn.Params[i].Type()}
			}
		}
		for _, l := range con.Lets {
			env.lets[l.Name] = l.Expr
		}
		return env.boolean(c.Expr)
	}
	for i, c := range invs {
		x.oblige(st, "inv", fmt.Sprintf("retry%d.%d", n, i+1), "init", evalInv(st, c), "retry invariant holds before the first attempt")
	}
	opSig := op.Clo.Fn.Signature
	opArgs := func(s *State) []Value {
		var as []Value
		for i := 0; i < opSig.Params().Len(); i++ {
			if i == 0 {
				as = append(as, args[1])
			} else {
				as = append(as, x.freshVal(s, "retryrec", opSig.Params().At(i).Type()))
			}
		}
		return as
	}
	// write set of one attempt
	wset := x.discoverWrites(st, func(dst *State) {
		x.callFunc(fr, dst, ins, op.Clo.Fn, opArgs(dst), op.Clo, site+".retry")
	})
	writes := wset.keys
	x.havocWriteSet(fr, st, wset, "retry")
	var js []*Term
	for _, c := range invs {
		js = append(js, evalInv(st, c))
	}
	for _, k := range sortedKeys(writes) {
		if g := x.frameInv(fr, st, k); g != nil {
			js = append(js, g)
		}
	}
	x.assumePC(st, And(js...))
	// one attempt from an arbitrary state satisfying the invariant
	r := x.callFunc(fr, st, ins, op.Clo.Fn, opArgs(st), op.Clo, site+".retry")
	if st.pc == False {
		return x.zeroValue(sig.Results())
	}
	for i, c := range invs {
		x.oblige(st, "inv", fmt.Sprintf("retry%d.%d", n, i+1), "step", evalInv(st, c), "every attempt preserves the retry invariant")
	}
	for _, k := range sortedKeys(writes) {
		if g := x.frameInv(fr, st, k); g != nil {
			x.oblige(st, "inv", fmt.Sprintf("retry%d.frame(%s)", n, k), "step", g, "implicit frame of the retry loop")
		}
	}
	e := x.freshVal(st, "retryerr", sig.Results().At(0).Type())
	x.assume(st, Eq(Eq(Acc(e.T, 0), Int(0)), Eq(Acc(r.T, 0), Int(0))))
	return e
}

// ruleStatemachineRun: the documented loop of statemachine.Run (read from the library source):
//   invalid name / nil Ctx / nil Next / non-nil Err  ->  (req with Next=nil, some non-nil error)
//   otherwise: while Next != nil { state := Next; Next = nil; req = state(req); if req.Err != nil { return req, req.Err } }; return req, nil
// The loop is unrolled over the machine's states (the method values with the state signature on the
// receiver of the initial state); every state is applied through its contract (or inlined), and at the
// unrolling bound the machine must provably have stopped, so the rule is exact for acyclic machines.
func ruleStatemachineRun(x *Exec, fr *Frame, st *State, ins ssa.Instruction, sig *types.Signature, args []Value) Value {
	x.assumed["library: statemachine.Run iterates req = req.Next(req with Next=nil) until Next == nil or Err != nil (read from its source); telemetry spans do not affect the request data"] = true
	if len(args) > 2 {
		// variadic options arrive as one slice argument; only the empty list is supported
		if args[2].T != nil && args[2].T != NilSlice() {
			x.assume(st, True)
		}
	}
	reqT := sig.Params().At(1).Type()
	su := reqT.Underlying().(*types.Struct)
	fCtx, fErr, fNext := fieldIndex(su, "Ctx"), fieldIndex(su, "Err"), fieldIndex(su, "Next")
	req := args[1].T
	name := args[0].T
	site := x.site(fr, ins)
	invalid := Or(Eq(trimSpaceTerm(name), strLit("")), Eq(Acc(Acc(req, fCtx), 0), Int(0)),
		Eq(Acc(Acc(req, fNext), 0), Int(0)), Not(Eq(Acc(Acc(req, fErr), 0), Int(0))))
	// candidates: method values with the state signature
	stateSig := su.Field(fNext).Type().Underlying().(*types.Signature)
	var cands []*ssa.Function
	if x.bounds == nil {
		x.boundMethod(reqT, "")
	}
	var keys []string
	for k := range x.bounds {
		keys = append(keys, k)
	}
	sort.Strings(keys)
	// the machine is the set of state methods on the receiver type of the initial state
	var recvT types.Type
	if n, ok := isLitInt(Acc(Acc(req, fNext), 0)); ok && n.Int64() > 0 && int(n.Int64()) < len(x.fnByID) {
		if f0 := x.fnByID[n.Int64()]; len(f0.FreeVars) == 1 {
			recvT = f0.FreeVars[0].Type()
		}
	}
	if recvT == nil {
		unsup("statemachine.Run: the initial state is not a syntactically known method value")
	}
	for _, k := range keys {
		f := x.bounds[k]
		if types.Identical(f.Signature, stateSig) && types.Identical(f.FreeVars[0].Type(), recvT) {
			cands = append(cands, f)
		}
	}
	var outs []*State
	var vals []Value
	// invalid-argument exit
	if inv := st.clone(); true {
		inv.pc = And(st.pc, invalid)
		if inv.pc != False {
			e := x.freshVal(inv, "runerr", sig.Results().At(1).Type())
			x.assume(inv, Not(Eq(Acc(e.T, 0), Int(0))))
			outs = append(outs, inv)
			vals = append(vals, Value{Tup: []Value{{T: Upd(req, fNext, NilFn())}, e}})
		}
	}
	cur := st.clone()
	cur.pc = And(st.pc, Not(invalid))
	curReq := req
	bound := len(cands) + 1
	if bound > 8 {
		bound = 8
	}
	for step := 0; ; step++ {
		next := Acc(curReq, fNext)
		// exit: Next == nil
		done := cur.clone()
		done.pc = And(cur.pc, Eq(Acc(next, 0), Int(0)))
		if done.pc != False {
			outs = append(outs, done)
			vals = append(vals, Value{Tup: []Value{{T: curReq}, {T: NilIface()}}})
		}
		cont := cur.clone()
		cont.pc = And(cur.pc, Not(Eq(Acc(next, 0), Int(0))))
		if cont.pc == False {
			break
		}
		if step >= bound {
			x.oblige(cont, "fsm", "terminates", site, False, fmt.Sprintf("the machine must have stopped after %d states (acyclic machines only)", bound))
			break
		}
		// the next state is one of the machine's states
		var isCand []*Term
		for _, c := range cands {
			isCand = append(isCand, Eq(Acc(next, 0), Int(int64(x.fnID(c)))))
		}
		x.oblige(cont, "fsm", "known-state", fmt.Sprintf("%s.step%d", site, step), Or(isCand...), "Request.Next is one of the machine's state methods")
		var sts []*State
		var reqs []*Term
		arg := Upd(curReq, fNext, NilFn())
		for _, c := range cands {
			cs := cont.clone()
			cs.pc = And(cont.pc, Eq(Acc(next, 0), Int(int64(x.fnID(c)))))
			if cs.pc == False {
				continue
			}
			rt := c.FreeVars[0].Type()
			var recv *Term
			if sortOf(rt) == "Int" {
				recv = Acc(next, 1)
			} else if s2, ok := rt.Underlying().(*types.Struct); ok && s2.NumFields() == 0 {
				recv = zeroTerm(rt)
			} else {
				recv = UF("un"+boxName(rt), sortOf(rt), Acc(next, 1))
			}
			clo := &Closure{Fn: c, Binds: []Value{{T: recv}}}
			r := x.callFunc(fr, cs, ins, c, []Value{{T: arg}}, clo, fmt.Sprintf("%s.step%d", site, step))
			if cs.pc == False {
				continue
			}
			sts = append(sts, cs)
			reqs = append(reqs, r.T)
		}
		if len(sts) == 0 {
			break
		}
		m := mergeStates(sts).clone()
		nr := reqs[len(reqs)-1]
		for i := len(reqs) - 2; i >= 0; i-- {
			nr = Ite(sts[i].pc, reqs[i], nr)
		}
		// exit: Err != nil
		errT := Acc(nr, fErr)
		fail := m.clone()
		fail.pc = And(m.pc, Not(Eq(Acc(errT, 0), Int(0))))
		if fail.pc != False {
			outs = append(outs, fail)
			vals = append(vals, Value{Tup: []Value{{T: nr}, {T: errT}}})
		}
		m.pc = And(m.pc, Eq(Acc(errT, 0), Int(0)))
		if m.pc == False {
			break
		}
		cur = m
		curReq = nr
	}
	if len(outs) == 0 {
		st.pc = False
		return x.zeroValue(sig.Results())
	}
	mm := mergeStates(outs).clone()
	val := vals[len(vals)-1]
	for i := len(vals) - 2; i >= 0; i-- {
		val = x.iteValue(outs[i].pc, vals[i], val)
	}
	*st = *mm
	return val
}

func ruleFor(key string) ruleFn {
	if r, ok := rules[key]; ok {
		return r
	}
	for p, r := range rulePrefixes {
		if len(key) >= len(p) && key[:len(p)] == p {
			return r
		}
	}
	return nil
}

// ruleNewError: errors.New / fmt.Errorf return a non-nil error that is a newly allocated object.
func ruleNewError(x *Exec, fr *Frame, st *State, ins ssa.Instruction, sig *types.Signature, args []Value) Value {
	tag := Fresh("errtag", "Int")
	x.assume(st, Gt(tag, Int(0)))
	ref := x.newRef(st)
	x.assumed["library: errors.New / fmt.Errorf return a non-nil, newly allocated error"] = true
	return Value{T: Mk(sortIface, tag, ref)}
}

