package main

// Registered (trusted) rules for library entry points, and the concurrency typestate.

import (
	"go/types"

	"golang.org/x/tools/go/ssa"
)

type ruleFn func(x *Exec, fr *Frame, st *State, ins ssa.Instruction, sig *types.Signature, args []Value) Value

var rules = map[string]ruleFn{}
var rulesInvoke = map[string]ruleFn{}

func init() {
	rules["errors.New"] = ruleNewError
	rules["fmt.Errorf"] = ruleNewError
	rules["strings.TrimSpace"] = func(x *Exec, fr *Frame, st *State, ins ssa.Instruction, sig *types.Signature, args []Value) Value {
		return Value{T: UF("strings.TrimSpace", sortStr, args[0].T)}
	}
	rules["fmt.Sprintf"] = func(x *Exec, fr *Frame, st *State, ins ssa.Instruction, sig *types.Signature, args []Value) Value {
		return Value{T: Fresh("sprintf", sortStr)}
	}
}

// ruleNewError: errors.New / fmt.Errorf return a non-nil error that is a newly allocated object.
func ruleNewError(x *Exec, fr *Frame, st *State, ins ssa.Instruction, sig *types.Signature, args []Value) Value {
	tag := Fresh("errtag", "Int")
	x.assume(st, Gt(tag, Int(0)))
	ref := x.newRef(st)
	x.assumed["library: errors.New / fmt.Errorf return a non-nil, newly allocated error"] = true
	return Value{T: Mk(sortIface, tag, ref)}
}

// concurrency (filled in by the fork/join and channel typestate layer) -------------------

func (x *Exec) doMakeChan(fr *Frame, st *State, ins *ssa.MakeChan) Value {
	unsup("make(chan) outside the channel typestate layer")
	return Value{}
}
func (x *Exec) chanCap(st *State, ch *Term) *Term { unsup("cap(chan)"); return nil }
func (x *Exec) doClose(fr *Frame, st *State, ins ssa.Instruction, ch Value) {
	unsup("close(chan)")
}
func (x *Exec) doGo(fr *Frame, st *State, ins *ssa.Go)     { unsup("go statement") }
func (x *Exec) doSend(fr *Frame, st *State, ins *ssa.Send) { unsup("channel send") }
func (x *Exec) doSelect(fr *Frame, st *State, ins *ssa.Select) Value {
	unsup("select")
	return Value{}
}
func (x *Exec) doRecv(fr *Frame, st *State, ins *ssa.UnOp, ch Value) Value {
	unsup("channel receive")
	return Value{}
}
