package main

import (
	"flag"
	"go/types"
	"fmt"
	"os"
	"path/filepath"
	"sort"
	"strings"
	"time"
)

func loadSpecs(w *World, specDir string) (*SpecDB, error) {
	db := newSpecDB()
	registerHeaps(w)
	// spec files of /verif first (prelude, trusted library contracts)
	if specDir != "" {
		files, _ := filepath.Glob(filepath.Join(specDir, "*.spec"))
		sort.Strings(files)
		for _, f := range files {
			sf, err := parseSpecPath(f)
			if err != nil {
				return nil, err
			}
			if err := db.add(sf, "", f); err != nil {
				return nil, err
			}
		}
	}
	for _, f := range w.contractFiles() {
		sf, err := parseSpecPath(f)
		if err != nil {
			return nil, err
		}
		// package name = name of the package in that directory
		pkgName := ""
		for _, p := range w.Pkgs {
			if len(p.GoFiles) > 0 && filepath.Dir(p.GoFiles[0]) == filepath.Dir(f) {
				pkgName = p.Types.Name()
			}
		}
		if err := db.add(sf, pkgName, f); err != nil {
			return nil, err
		}
	}
	return db, nil
}

func cmdVerify(args []string) int {
	fs := flag.NewFlagSet("verify", flag.ExitOnError)
	repo := fs.String("repo", "/repo", "repository")
	spec := fs.String("spec", "/verif/spec", "spec dir")
	only := fs.String("func", "", "only functions whose key contains this")
	timeout := fs.Int("timeout", 10, "solver timeout (s)")
	keep := fs.String("keep", "", "keep VC files in this dir")
	verbose := fs.Bool("v", false, "verbose")
	chain := fs.Bool("chain", false, "verify chain lemmas instead of contracts")
	fs.Parse(args)
	pats := fs.Args()
	if len(pats) == 0 {
		pats = []string{"./..."}
	}
	t0 := time.Now()
	w, err := loadWorld(*repo, pats)
	if err != nil {
		fmt.Fprintln(os.Stderr, err)
		return 2
	}
	fmt.Fprintf(os.Stderr, "loaded in %.1fs, %d functions\n", time.Since(t0).Seconds(), len(w.FuncList))
	db, err := loadSpecs(w, *spec)
	if err != nil {
		fmt.Fprintln(os.Stderr, err)
		return 2
	}
	x := newExec(w, db)
	var keys []string
	for k := range db.contracts {
		keys = append(keys, k)
	}
	sort.Strings(keys)
	if *chain {
		keys = nil
		for _, c := range db.chains {
			for _, f := range c.States {
				if *only == "" || strings.Contains(f, *only) {
					x.verifyChainState(c, db.chainPkg[c], f)
				}
			}
		}
	}
	for _, k := range keys {
		if *only != "" && !strings.Contains(k, *only) {
			continue
		}
		c := db.contracts[k]
		if _, ok := w.Funcs[k]; !ok && c.Trusted {
			continue
		}
		if c.Inline {
			continue // only carries loop invariants for a literal that is verified in place
		}
		x.verifyFunction(c)
	}
	dir := *keep
	if dir == "" {
		dir, _ = os.MkdirTemp("", "govc-")
		defer os.RemoveAll(dir)
	} else {
		os.MkdirAll(dir, 0o755)
	}
	t1 := time.Now()
	x.obls = x.solveAllSplit(x.obls, dir, *timeout, false, 16)
	fmt.Fprintf(os.Stderr, "symex %.1fs, solving %.1fs, %d obligations\n", t1.Sub(t0).Seconds(), time.Since(t1).Seconds(), len(x.obls))
	bad := 0
	for _, o := range x.obls {
		ok := o.Result.Status == "unsat"
		if o.Kind == "canary" {
			ok = o.Result.Status != "unsat"
		}
		if !ok {
			bad++
		}
		if !ok || *verbose {
			mark := "ok  "
			if !ok {
				mark = "FAIL"
			}
			fmt.Printf("%s %-70s %s %s %.2fs %s\n", mark, o.Name, o.Result.Status, o.Result.Solver, o.Result.Seconds, strings.ReplaceAll(firstLines(o.Result.Output, 3), "\n", " | "))
			if !ok && o.Note != "" {
				fmt.Printf("       note: %s\n", o.Note)
			}
		}
	}
	fmt.Printf("%d obligations, %d not ok\n", len(x.obls), bad)
	if bad > 0 {
		return 1
	}
	return 0
}

func main() {
	if len(os.Args) < 2 {
		fmt.Fprintln(os.Stderr, "usage: govc verify|check ...")
		os.Exit(2)
	}
	switch os.Args[1] {
	case "verify":
		os.Exit(cmdVerify(os.Args[2:]))
	case "check":
		os.Exit(cmdCheck(os.Args[2:]))
	case "list-props":
		// prints "<prop> <contract key>" for every contract (development aid for spec/props.json)
		w, err := loadWorld("/repo", []string{"./..."})
		if err != nil {
			fmt.Fprintln(os.Stderr, err)
			os.Exit(2)
		}
		db, err := loadSpecs(w, "/verif/spec")
		if err != nil {
			fmt.Fprintln(os.Stderr, err)
			os.Exit(2)
		}
		var keys []string
		for k := range db.contracts {
			keys = append(keys, k)
		}
		sort.Strings(keys)
		for _, k := range keys {
			for _, p := range db.contracts[k].Props {
				fmt.Println(p, k)
			}
		}
	default:
		if c, ok := extraCmds[os.Args[1]]; ok {
			os.Exit(c(os.Args[2:]))
		}
		fmt.Fprintln(os.Stderr, "unknown command")
		os.Exit(2)
	}
}

// registerHeaps makes the heap arrays of every struct type declared in /repo (and the
// common element heaps) known up front, so specification functions can name them.
func registerHeaps(w *World) {
	for path, p := range w.Pkgs {
		if !isRepoPkg(path) {
			continue
		}
		sc := p.Types.Scope()
		for _, n := range sc.Names() {
			tn, ok := sc.Lookup(n).(*types.TypeName)
			if !ok {
				continue
			}
			st, ok := tn.Type().Underlying().(*types.Struct)
			if !ok || isTimeTime(tn.Type()) {
				continue
			}
			if named, ok := tn.Type().(*types.Named); ok && named.TypeParams().Len() > 0 {
				continue
			}
			for i := 0; i < st.NumFields(); i++ {
				func() {
					defer func() { recover() }()
					k, s := fieldHeapKey(tn.Type(), i)
					heapSorts[k] = s
					if sl, ok := st.Field(i).Type().Underlying().(*types.Slice); ok {
						ek, es := elemHeapKey(sl.Elem())
						heapSorts[ek] = es
					}
				}()
			}
		}
	}
	chHasGhost(types.NewStruct(nil, nil))
	for path, p := range w.Pkgs {
		if isRepoPkg(path) && p.Types.Name() == "actions" {
			if o := p.Types.Scope().Lookup("plugResp"); o != nil {
				chHasGhost(o.Type())
			}
		}
	}
	anyT := types.Universe.Lookup("any").Type()
	errT := types.Universe.Lookup("error").Type()
	_ = errT
	for _, t := range []types.Type{types.Typ[types.Int], types.Typ[types.Bool], types.Typ[types.String], anyT,
		types.NewSlice(types.Typ[types.Int]), types.NewSignatureType(nil, nil, nil, nil, nil, false), types.NewPointer(types.Typ[types.Int])} {
		k, hs := elemHeapKey(t)
		heapSorts[k] = hs
		k, hs = cellHeapKey(t)
		heapSorts[k] = hs
	}
}

func init() {
	extraCmds["funcs"] = func(args []string) int {
		w, err := loadWorld("/repo", args)
		if err != nil {
			fmt.Fprintln(os.Stderr, err)
			return 2
		}
		for _, fn := range w.FuncList {
			fmt.Println(funcKey(fn))
		}
		return 0
	}
}

var extraCmds = map[string]func(args []string) int{}
