package main

// Mapping of Go types to SMT sorts, datatype registry for struct values, and
// the naming of heap arrays (Burstall field heaps, element heaps, cell heaps).

import (
	"fmt"
	"go/types"
	"strings"
)

const (
	sortSlice = "Slice"
	sortIface = "Iface"
	sortFn    = "Fn"
	sortStr   = "Str"
)

func init() {
	declareSort(sortStr)
	declareDT(sortSlice, []string{"arr", "off", "len", "cap"}, []string{"Int", "Int", "Int", "Int"})
	declareDT(sortIface, []string{"tag", "val"}, []string{"Int", "Int"})
	declareDT(sortFn, []string{"fid", "env"}, []string{"Int", "Int"})
}

var (
	NilSlice = func() *Term { return Mk(sortSlice, Int(0), Int(0), Int(0), Int(0)) }
	NilIface = func() *Term { return Mk(sortIface, Int(0), Int(0)) }
	NilFn    = func() *Term { return Mk(sortFn, Int(0), Int(0)) }
)

func isNamed(t types.Type, pkg, name string) bool {
	n, ok := types.Unalias(t).(*types.Named)
	if !ok {
		return false
	}
	o := n.Obj()
	return o.Name() == name && o.Pkg() != nil && o.Pkg().Path() == pkg
}

func isTimeTime(t types.Type) bool { return isNamed(t, "time", "Time") }

// uuid.UUID ([16]byte) is an opaque value: only equality, the nil id and the library functions (String, Version) matter.
const sortUUID = "UUID"

func isUUID(t types.Type) bool { return isNamed(t, "github.com/google/uuid", "UUID") }

var structSortNames = map[string]string{} // types.TypeString -> sort
var structSortCount = map[string]int{}
var structOfSort = map[string]*types.Struct{}
var goTypeOfSort = map[string]types.Type{}

func mangleType(t types.Type) string {
	s := types.TypeString(t, func(p *types.Package) string { return p.Name() })
	s = strings.NewReplacer("*", "P", "[]", "L", "[", "_", "]", "_", ".", "_", "/", "_", " ", "", "{", "_", "}", "_", ",", "_", ";", "_", "(", "_", ")", "_").Replace(s)
	if len(s) > 60 {
		s = s[:60]
	}
	return s
}

// sortOf returns the SMT sort used for values of Go type t.
func sortOf(t types.Type) string {
	t = types.Unalias(t)
	if isTimeTime(t) {
		return "Int"
	}
	if isUUID(t) {
		declareSort(sortUUID)
		return sortUUID
	}
	switch u := t.Underlying().(type) {
	case *types.Basic:
		switch {
		case u.Info()&types.IsBoolean != 0:
			return "Bool"
		case u.Info()&types.IsInteger != 0:
			return "Int"
		case u.Info()&types.IsString != 0:
			return sortStr
		case u.Info()&types.IsFloat != 0:
			return "Real"
		case u.Kind() == types.UnsafePointer:
			return "Int"
		case u.Kind() == types.UntypedNil:
			return "Int"
		}
		return "Int"
	case *types.Pointer, *types.Map, *types.Chan:
		return "Int"
	case *types.Slice:
		return sortSlice
	case *types.Interface:
		return sortIface
	case *types.Signature:
		return sortFn
	case *types.Array:
		return arraySort("Int", sortOf(u.Elem()))
	case *types.Struct:
		return structSort(t, u)
	case *types.Tuple:
		panic("sortOf tuple")
	case *types.TypeParam:
		return sortIface
	}
	panic(fmt.Sprintf("sortOf: unhandled type %s", t))
}

func structSort(t types.Type, u *types.Struct) string {
	key := types.TypeString(t, nil)
	if s, ok := structSortNames[key]; ok {
		return s
	}
	base := "S_" + mangleType(t)
	structSortCount[base]++
	name := base
	if structSortCount[base] > 1 {
		name = fmt.Sprintf("%s_%d", base, structSortCount[base])
	}
	structSortNames[key] = name // set before recursing (no recursion by value possible in Go)
	var fields, fsorts []string
	for i := 0; i < u.NumFields(); i++ {
		fields = append(fields, fmt.Sprintf("%d_%s", i, u.Field(i).Name()))
		fsorts = append(fsorts, sortOf(u.Field(i).Type()))
	}
	if u.NumFields() == 0 {
		fields = []string{"unit"}
		fsorts = []string{"Int"}
	}
	// dependencies have been declared by the recursive sortOf calls above
	declareDT(name, fields, fsorts)
	structOfSort[name] = u
	goTypeOfSort[name] = t
	return name
}

// zeroTerm returns the zero value of Go type t.
func zeroTerm(t types.Type) *Term {
	t = types.Unalias(t)
	if isTimeTime(t) {
		return Int(0)
	}
	if isUUID(t) {
		declareSort(sortUUID)
		return Const("uuid_nil", sortUUID)
	}
	switch u := t.Underlying().(type) {
	case *types.Basic:
		switch {
		case u.Info()&types.IsBoolean != 0:
			return False
		case u.Info()&types.IsString != 0:
			return strLit("")
		case u.Info()&types.IsFloat != 0:
			return intern(&Term{Op: "0.0", Sort: "Real", kind: kLit})
		}
		return Int(0)
	case *types.Pointer, *types.Map, *types.Chan:
		return Int(0)
	case *types.Slice:
		return NilSlice()
	case *types.Interface, *types.TypeParam:
		return NilIface()
	case *types.Signature:
		return NilFn()
	case *types.Array:
		return ConstArray(sortOf(t), zeroTerm(u.Elem()))
	case *types.Struct:
		s := structSort(t, u)
		if u.NumFields() == 0 {
			return Mk(s, Int(0))
		}
		args := make([]*Term, u.NumFields())
		for i := range args {
			args[i] = zeroTerm(u.Field(i).Type())
		}
		return Mk(s, args...)
	}
	panic(fmt.Sprintf("zeroTerm: unhandled type %s", t))
}

// string literals: pairwise distinct constants of sort Str; "" is str_empty.
var strLits = map[string]*Term{}
var strLitOrder []string

func strLit(s string) *Term {
	if t, ok := strLits[s]; ok {
		return t
	}
	name := fmt.Sprintf("str!%d", len(strLits))
	if s == "" {
		name = "str!empty"
	}
	t := Const(name, sortStr)
	strLits[s] = t
	strLitOf[t] = s
	strLitOrder = append(strLitOrder, s)
	return t
}

var strLitOf = map[*Term]string{}

// type tags for interfaces
var typeTags = map[string]int{}
var typeTagTypes = []types.Type{nil}

func typeTag(t types.Type) *Term {
	t = types.Unalias(t)
	key := types.TypeString(t, nil)
	if n, ok := typeTags[key]; ok {
		return Int(int64(n))
	}
	n := len(typeTagTypes)
	typeTags[key] = n
	typeTagTypes = append(typeTagTypes, t)
	return Int(int64(n))
}

// heap keys --------------------------------------------------------------

// fieldHeapKey names the Burstall array for field i of named struct type t.
func fieldHeapKey(t types.Type, i int) (key string, sort string) {
	st := t.Underlying().(*types.Struct)
	fname := st.Field(i).Name()
	if fname == "_" {
		fname = fmt.Sprintf("_blank%d", i)
	}
	key = fmt.Sprintf("H_%s_%s", mangleType(t), fname)
	heapValType[key] = st.Field(i).Type()
	return key, arraySort("Int", sortOf(st.Field(i).Type()))
}

func sortTag(s string) string {
	return strings.NewReplacer("(", "", ")", "", " ", "_").Replace(s)
}

// heapClass: element and cell heaps are keyed by SMT sort, except that pointer-like values get
// their own heaps ("Ref"), so that reference well-formedness can be stated per heap.
func heapClass(t types.Type) string {
	if isPointerLike(t) {
		// Go's typed pointers: a []*A can never alias a []*B
		return "Ref_" + mangleType(t)
	}
	return sortTag(sortOf(t))
}

// heapValType remembers a representative Go type of the values stored in each heap array.
var heapValType = map[string]types.Type{}

// elemHeapKey names the 2-D array holding slice/array elements of type t.
func elemHeapKey(t types.Type) (key string, sort string) {
	key = "EH_" + heapClass(t)
	if _, ok := heapValType[key]; !ok {
		heapValType[key] = t
	}
	return key, arraySort("Int", arraySort("Int", sortOf(t)))
}

// cellHeapKey names the array for pointers to non-struct, non-array values of type t.
func cellHeapKey(t types.Type) (key string, sort string) {
	key = "CH_" + heapClass(t)
	if _, ok := heapValType[key]; !ok {
		heapValType[key] = t
	}
	return key, arraySort("Int", sortOf(t))
}

func isPointerLike(t types.Type) bool {
	switch t.Underlying().(type) {
	case *types.Pointer, *types.Map, *types.Chan:
		return true
	}
	return false
}

func derefType(t types.Type) types.Type {
	if p, ok := t.Underlying().(*types.Pointer); ok {
		return p.Elem()
	}
	return nil
}
