package main

// Trusted rules for small library types used by the validation and API code:
// sets.Set[E] (a struct holding a map), context values, uuid.

import (
	"fmt"
	"go/types"
	"os"
	"regexp"
	"strings"

	"golang.org/x/tools/go/ssa"
)

func init() {
	ghostSorts["ctxVal"] = arraySort("Int", arraySort(sortIface, sortIface))
	ghostSorts["usedID"] = arraySort(sortStr, "Bool")

	// sets.Set[E]: struct { m map[E]struct{} } with pointer-receiver methods (read from its source)
	setParts := func(x *Exec, sig *types.Signature, recv Value) (*LValue, *types.Map) {
		rt := sig.Recv().Type().Underlying().(*types.Pointer).Elem()
		su := rt.Underlying().(*types.Struct)
		i := fieldIndex(su, "m")
		if i < 0 {
			unsup("sets.Set: field m not found")
		}
		return x.fieldLV(recv, rt, i), su.Field(i).Type().Underlying().(*types.Map)
	}
	rulePrefixes["sets.(*Set["] = func(x *Exec, fr *Frame, st *State, ins ssa.Instruction, sig *types.Signature, args []Value) Value {
		x.assumed["library: sets.Set[E] is struct{m map[E]struct{}}; Contains reads m, Add allocates m when nil and inserts, Remove deletes, Len is len(m) (read from its source)"] = true
		name := ""
		switch c := ins.(type) {
		case *ssa.Call:
			name = c.Call.StaticCallee().Name()
		case *ssa.Defer:
			name = c.Call.StaticCallee().Name()
		}
		if i := strings.Index(name, "["); i > 0 {
			name = name[:i]
		}
		if args[0].LV == nil {
			x.nilCheck(fr, st, args[0].T, ins, "method call on nil *sets.Set")
		}
		lv, mt := setParts(x, sig, args[0])
		m := x.readLV(st, lv)
		switch name {
		case "Contains":
			return Value{T: x.mapPresent(st, mt, m, args[1].T)}
		case "Len":
			n := Fresh("setlen", "Int")
			x.assume(st, Ge(n, Int(0)))
			return Value{T: n}
		case "Remove":
			live := st.clone()
			live.pc = And(st.pc, Not(Eq(m, Int(0))))
			x.mapStore(live, mt, m, args[1].T, nil, False)
			skip := st.clone()
			skip.pc = And(st.pc, Eq(m, Int(0)))
			*st = *mergeStates([]*State{live, skip}).clone()
			return Value{}
		case "Add":
			// init(): allocate the map if nil
			nm := x.newRef(st)
			_, _, pk, ps := mapHeapKeys(mt)
			hp := st.H(pk, ps)
			isNil := Eq(m, Int(0))
			st.setH(pk, Ite(isNil, Store(hp, nm, ConstArray(arraySort(sortOf(mt.Key()), "Bool"), False)), hp))
			x.writeLV(st, lv, Ite(isNil, nm, m))
			m = Ite(isNil, nm, m)
			vals := args[1].T
			k, lit := isLitInt(sLen(vals))
			if !lit || k.Int64() > 8 {
				unsup("sets.Set.Add with a non-literal number of values")
			}
			ek, ehs := elemHeapKey(mt.Key())
			row := Select(st.H(ek, ehs), sArr(vals))
			for i := int64(0); i < k.Int64(); i++ {
				x.mapStore(st, mt, m, Select(row, ix(sOff(vals), Int(i))), zeroTerm(mt.Elem()), True)
			}
			return Value{}
		}
		unsup("sets.Set method %s has no rule", name)
		return Value{}
	}

	// context values: WithValue derives a new context that inherits everything and adds one binding
	rules["context.WithValue"] = func(x *Exec, fr *Frame, st *State, ins ssa.Instruction, sig *types.Signature, args []Value) Value {
		x.assumed["library: context.WithValue(parent, k, v) returns a new context with parent's cancellation and values plus k -> v; Value(k) returns the binding (nil when there is none; Background has none)"] = true
		tag := Fresh("ctxvtag", "Int")
		x.assume(st, Gt(tag, Int(0)))
		c := Mk(sortIface, tag, x.newRef(st))
		id, parent := Acc(c, 1), Acc(args[0].T, 1)
		for _, g := range []string{"ctxNoCancel", "ctxExpires", "ctxCancelled"} {
			gSet(st, g, id, gSel(st, g, parent))
		}
		gSet(st, "ctxVal", id, Store(gSel(st, "ctxVal", parent), args[1].T, args[2].T))
		return Value{T: c}
	}
	rulesInvoke["context.Context.Value"] = func(x *Exec, fr *Frame, st *State, ins ssa.Instruction, sig *types.Signature, args []Value) Value {
		v := Select(gSel(st, "ctxVal", Acc(args[0].T, 1)), args[1].T)
		x.assume(st, x.wf(st, v, sig.Results().At(0).Type()))
		return Value{T: v}
	}
	rules["context.Background"] = func(x *Exec, fr *Frame, st *State, ins ssa.Instruction, sig *types.Signature, args []Value) Value {
		bg := Const("glob_ctx_background", "Int")
		c := Mk(sortIface, typeTag(types.Typ[types.Int]), bg)
		x.assume(st, Eq(gSel(st, "ctxVal", bg), ConstArray(arraySort(sortIface, sortIface), NilIface())))
		x.assume(st, Gt(bg, Int(0)))
		return Value{T: c}
	}

	// uuid
	rules["uuid.(UUID).String"] = func(x *Exec, fr *Frame, st *State, ins ssa.Instruction, sig *types.Signature, args []Value) Value {
		return Value{T: UF("uuidstr", sortStr, args[0].T)}
	}
	rules["uuid.(UUID).Version"] = func(x *Exec, fr *Frame, st *State, ins ssa.Instruction, sig *types.Signature, args []Value) Value {
		return Value{T: UF("uuidver", "Int", args[0].T)}
	}
	rules["uuid.NewV7"] = func(x *Exec, fr *Frame, st *State, ins ssa.Instruction, sig *types.Signature, args []Value) Value {
		x.assumed["A-uuid: uuid.NewV7 returns, when it returns no error, a non-nil version-7 id whose string differs from that of every id it returned before (ghost usedID)"] = true
		res := x.freshVal(st, "newv7", sig.Results())
		u, e := res.Tup[0].T, res.Tup[1].T
		s := UF("uuidstr", sortStr, u)
		ok := Eq(Acc(e, 0), Int(0))
		x.assume(st, Implies(ok, And(Eq(UF("uuidver", "Int", u), Int(7)), Not(Eq(u, zeroTerm(sig.Results().At(0).Type()))), Not(Select(st.G("usedID"), s)))))
		st.setG("usedID", Ite(ok, Store(st.G("usedID"), s, True), st.G("usedID")))
		return res
	}
}

func init() {
	specBuiltins["ctxvalue"] = func(env *SpecEnv, e *Expr) SVal {
		c := env.eval(e.Args[0])
		k := env.eval(e.Args[1])
		anyT := types.Universe.Lookup("any").Type()
		return SVal{T: Select(Select(env.st.G("ctxVal"), Acc(c.T, 1)), k.T), GT: anyT}
	}
	specBuiltins["uuidstr"] = func(env *SpecEnv, e *Expr) SVal {
		return SVal{T: UF("uuidstr", sortStr, env.eval(e.Args[0]).T), GT: types.Typ[types.String]}
	}
	specBuiltins["uuidver"] = func(env *SpecEnv, e *Expr) SVal {
		return SVal{T: UF("uuidver", "Int", env.eval(e.Args[0]).T), GT: types.Typ[types.Int]}
	}
	mapArgs := func(env *SpecEnv, e *Expr) (*types.Map, *Term, *Term) {
		m := env.eval(e.Args[0])
		if m.GT == nil {
			env.errf(e, "%s: untyped map", e.Name)
		}
		mt, ok := m.GT.Underlying().(*types.Map)
		if !ok {
			env.errf(e, "%s of a non-map (%s)", e.Name, m.GT)
		}
		k := env.eval(e.Args[1])
		return mt, m.T, k.T
	}
	specBuiltins["maphas"] = func(env *SpecEnv, e *Expr) SVal {
		mt, m, k := mapArgs(env, e)
		return SVal{T: env.x.mapPresent(env.st, mt, m, k)}
	}
	specBuiltins["mapget"] = func(env *SpecEnv, e *Expr) SVal {
		mt, m, k := mapArgs(env, e)
		return SVal{T: env.x.mapValue(env.st, mt, m, k), GT: mt.Elem()}
	}
	// mapsame(m): map m has the entries it had in the old state
	specBuiltins["mapsame"] = func(env *SpecEnv, e *Expr) SVal {
		m := env.eval(e.Args[0])
		mt, ok := m.GT.Underlying().(*types.Map)
		if !ok {
			env.errf(e, "mapsame of a non-map")
		}
		vk, vs, pk, ps := mapHeapKeys(mt)
		return SVal{T: And(Eq(Select(env.st.H(vk, vs), m.T), Select(env.old.H(vk, vs), m.T)), Eq(Select(env.st.H(pk, ps), m.T), Select(env.old.H(pk, ps), m.T)))}
	}
}

var specBuiltins = map[string]func(env *SpecEnv, e *Expr) SVal{}

var _ = strings.HasPrefix

func init() {
	// allelems(s, x, P(x)): every element x of slice s satisfies P, quantified over the positions of the backing
	// array (robust against re-slicing: no index arithmetic in the pattern)
	specBuiltins["allelems"] = func(env *SpecEnv, e *Expr) SVal {
		if len(e.Args) != 3 || e.Args[1].Kind != "id" {
			env.errf(e, "allelems(slice, var, predicate) expected")
		}
		s := env.eval(e.Args[0])
		if s.T == nil || s.T.Sort != sortSlice || s.GT == nil {
			env.errf(e, "allelems() of a non-slice")
		}
		et := s.GT.Underlying().(*types.Slice).Elem()
		key, hs := elemHeapKey(et)
		row := Select(env.st.H(key, hs), sArr(s.T))
		r := BoundVar("q_pos_"+strings.Repeat("i", env.qdepth+1), "Int")
		n := env.bind(e.Args[1].Name, SVal{T: Select(row, r), GT: et})
		n.qdepth = env.qdepth + 1
		body := n.boolean(e.Args[2])
		return SVal{T: Forall([]*Term{r}, [][]*Term{{Select(row, r)}}, Implies(And(Ge(r, sOff(s.T)), Lt(r, Add(sOff(s.T), sLen(s.T)))), body))}
	}
}

// sync.ShardedMap[K, V] (gostdlib): a concurrent map stored by value inside its owner. It is modelled as a Go map whose
// identity is derived from the location of the ShardedMap value (a negative reference, never an allocated object).
func (x *Exec) shardedMap(st *State, recv Value, named types.Type) (*types.Map, *Term) {
	n, ok := types.Unalias(named).(*types.Named)
	if !ok || n.TypeArgs().Len() != 2 {
		unsup("ShardedMap: receiver type %s", named)
	}
	mt := types.NewMap(n.TypeArgs().At(0), n.TypeArgs().At(1))
	var id *Term
	switch {
	case recv.LV != nil:
		h := int64(0)
		for _, c := range recv.LV.Key {
			h = (h*31 + int64(c)) % 1000003
		}
		id = Sub(Int(-1-h), Mul(Int(1000003), recv.LV.Ref))
	case recv.T != nil:
		id = Sub(Int(-1), Mul(Int(1000003), recv.T))
	default:
		unsup("ShardedMap: receiver has no address")
	}
	return mt, id
}

func init() {
	rulePrefixes["sync.(*ShardedMap["] = func(x *Exec, fr *Frame, st *State, ins ssa.Instruction, sig *types.Signature, args []Value) Value {
		x.assumed["library: sync.ShardedMap[K,V] Get/Set/Del behave like a map (Get returns the stored value and whether the key is present, Set stores, Del removes); its internal sharding and locking are not modelled"] = true
		name := ""
		switch c := ins.(type) {
		case *ssa.Call:
			name = c.Call.StaticCallee().Name()
		case *ssa.Defer:
			name = c.Call.StaticCallee().Name()
		}
		if i := strings.Index(name, "["); i > 0 {
			name = name[:i]
		}
		if args[0].LV == nil {
			x.nilCheck(fr, st, args[0].T, ins, "method call on nil *ShardedMap")
		}
		mt, id := x.shardedMap(st, args[0], sig.Recv().Type().Underlying().(*types.Pointer).Elem())
		k := args[1].T
		prev := Value{Tup: []Value{{T: x.mapValue(st, mt, id, k)}, {T: x.mapPresent(st, mt, id, k)}}}
		if prev.Tup[0].T.Sort == sortFn {
			prev.Tup[0].Clo = x.closureOf(prev.Tup[0].T)
		}
		switch name {
		case "Get":
			return prev
		case "Set":
			x.mapStore(st, mt, id, k, x.firstClass(args[2], mt.Elem()), True)
			return prev
		case "Del":
			x.mapStore(st, mt, id, k, nil, False)
			return prev
		case "Len":
			n := Fresh("shmlen", "Int")
			x.assume(st, Ge(n, Int(0)))
			return Value{T: n}
		}
		unsup("ShardedMap method %s has no rule", name)
		return Value{}
	}
	// shm(e.field): the map modelling the ShardedMap stored in that field
	specBuiltins["shm"] = func(env *SpecEnv, e *Expr) SVal {
		v := env.eval(e.Args[0])
		if v.LV == nil || v.GT == nil {
			env.errf(e, "shm() needs a field holding a ShardedMap")
		}
		mt, id := env.x.shardedMap(env.st, Value{LV: v.LV}, v.GT)
		return SVal{T: id, GT: mt}
	}
	// azcosmos.PatchOperations: Append* record one operation each (observed through contract monitors); the list itself
	// is the SDK's
	rulePrefixes["azcosmos.(*PatchOperations).Append"] = func(x *Exec, fr *Frame, st *State, ins ssa.Instruction, sig *types.Signature, args []Value) Value {
		x.assumed["library: azcosmos.PatchOperations.Append* add one patch operation (path, value) to the request; the operations are observed through contract monitors, the list is the SDK's"] = true
		return Value{}
	}
	// azcosmos.TransactionalBatch: CreateItem / DeleteItem / ReplaceItem add one operation to the batch; the ghost batchOps
	// (declared in /verif/spec/cosmosdb.spec) counts them, contract monitors observe their arguments
	rulePrefixes["azcosmos.(*TransactionalBatch)."] = func(x *Exec, fr *Frame, st *State, ins ssa.Instruction, sig *types.Signature, args []Value) Value {
		x.assumed["library: azcosmos.TransactionalBatch.CreateItem/DeleteItem/ReplaceItem add one operation to the batch (counted by ghost batchOps, observed through contract monitors); the batch itself is the SDK's"] = true
		if _, ok := ghostSorts["batchOps"]; ok {
			st.setG("batchOps", Add(st.G("batchOps"), Int(1)))
		}
		return x.resultValue(st, "batchop", sig.Results())
	}
	// azcore runtime.Pager[T] (query results of the Cosmos DB client): More and NextPage are the service's; they return
	// unconstrained values and write nothing visible to /repo
	rulePrefixes["runtime.(*Pager["] = func(x *Exec, fr *Frame, st *State, ins ssa.Instruction, sig *types.Signature, args []Value) Value {
		x.assumed["library: azcore runtime.Pager (Cosmos DB query results): More/NextPage return unconstrained values (which documents a query returns, and in which order, is the service's) and write no memory of /repo"] = true
		return x.resultValue(st, "pager", sig.Results())
	}
	// sync.Mutex: critical sections are not modelled (no interleavings); Lock/Unlock are no-ops
	for _, k := range []string{"sync.(*Mutex).Lock", "sync.(*Mutex).Unlock", "sync.(*RWMutex).Lock", "sync.(*RWMutex).Unlock", "sync.(*RWMutex).RLock", "sync.(*RWMutex).RUnlock"} {
		rules[k] = func(x *Exec, fr *Frame, st *State, ins ssa.Instruction, sig *types.Signature, args []Value) Value {
			x.assumed["library: sync.Mutex Lock/Unlock have no effect on the memory of /repo (interleavings are not modelled; mutual exclusion itself is trusted)"] = true
			return Value{}
		}
	}
}

func init() {
	// alloc0(): the allocation watermark at the entry of the function under verification (x < alloc0(): x existed then)
	specBuiltins["alloc0"] = func(env *SpecEnv, e *Expr) SVal {
		if env.old == nil {
			env.errf(e, "alloc0() needs an entry state")
		}
		return SVal{T: env.old.alloc}
	}
}

func init() {
	// unixnano(t): Time.UnixNano in the time model (see the time rules in sql.go)
	specBuiltins["unixnano"] = func(env *SpecEnv, e *Expr) SVal {
		return SVal{T: Sub(env.eval(e.Args[0]).T, unixEpoch()), GT: types.Typ[types.Int64]}
	}
	specBuiltins["unixtime"] = func(env *SpecEnv, e *Expr) SVal {
		return SVal{T: Add(unixEpoch(), env.eval(e.Args[0]).T)}
	}
	specBuiltins["epoch"] = func(env *SpecEnv, e *Expr) SVal { return SVal{T: unixEpoch()} }
	// bytesval(b): the contents of a []byte as a value
	specBuiltins["bytesval"] = func(env *SpecEnv, e *Expr) SVal {
		return SVal{T: env.x.bytesVal(env.st, env.eval(e.Args[0]).T)}
	}
	// jsonfield(b, T, f): field f of the document with bytes value b decoded as struct type T (scalar, string, time, id
	// fields: the value; []byte fields: the bytes value); jsonfieldlen(b, T, f) / jsonfieldat(b, T, f, i): a list field
	jsonFieldArgs := func(env *SpecEnv, e *Expr) (*Term, types.Type, *types.Var) {
		data := env.eval(e.Args[0]).T
		t := env.goType(e.Args[1])
		su, ok := t.Underlying().(*types.Struct)
		if !ok {
			env.errf(e, "jsonfield: %s is not a struct type", t)
		}
		if e.Args[2].Kind != "id" {
			env.errf(e, "jsonfield: third argument must be a field name")
		}
		for i := 0; i < su.NumFields(); i++ {
			if su.Field(i).Name() == e.Args[2].Name {
				return data, t, su.Field(i)
			}
		}
		env.errf(e, "jsonfield: %s has no field %s", t, e.Args[2].Name)
		return nil, nil, nil
	}
	specBuiltins["jsonfield"] = func(env *SpecEnv, e *Expr) SVal {
		data, t, f := jsonFieldArgs(env, e)
		if sl, ok := f.Type().Underlying().(*types.Slice); ok {
			if b, isB := sl.Elem().Underlying().(*types.Basic); isB && b.Kind() == types.Uint8 {
				return SVal{T: jsonFieldTerm(sortBytes, data, typeKeyName(t), f.Name())}
			}
			env.errf(e, "jsonfield: %s is a list, use jsonfieldlen / jsonfieldat", f.Name())
		}
		return SVal{T: jsonFieldTerm(sortOf(f.Type()), data, typeKeyName(t), f.Name()), GT: f.Type()}
	}
	specBuiltins["jsonfieldlen"] = func(env *SpecEnv, e *Expr) SVal {
		data, t, f := jsonFieldArgs(env, e)
		return SVal{T: UF("jsonfieldlen_"+typeKeyName(t)+"_"+f.Name(), "Int", data)}
	}
	specBuiltins["jsonfieldat"] = func(env *SpecEnv, e *Expr) SVal {
		data, t, f := jsonFieldArgs(env, e)
		sl, ok := f.Type().Underlying().(*types.Slice)
		if !ok {
			env.errf(e, "jsonfieldat: %s is not a list", f.Name())
		}
		es := sortOf(sl.Elem())
		return SVal{T: UF("jsonfieldat_"+typeKeyName(t)+"_"+f.Name()+"_"+sortSuffix(es), es, data, env.eval(e.Args[3]).T), GT: sl.Elem()}
	}
	// jsonlen(b) / jsonat(b, i): length and i-th element of the list of strings encoded in the bytes value b
	specBuiltins["jsonlen"] = func(env *SpecEnv, e *Expr) SVal {
		return SVal{T: UF("jsonStrLen", "Int", env.eval(e.Args[0]).T)}
	}
	specBuiltins["jsonat"] = func(env *SpecEnv, e *Expr) SVal {
		return SVal{T: UF("jsonStrAt", sortStr, env.eval(e.Args[0]).T, env.eval(e.Args[1]).T), GT: types.Typ[types.String]}
	}
	specBuiltins["coltext"] = func(env *SpecEnv, e *Expr) SVal {
		return SVal{T: UF("colText", sortStr, env.eval(e.Args[0]).T, env.eval(e.Args[1]).T), GT: types.Typ[types.String]}
	}
	specBuiltins["colint"] = func(env *SpecEnv, e *Expr) SVal {
		return SVal{T: UF("colInt", "Int", env.eval(e.Args[0]).T, env.eval(e.Args[1]).T), GT: types.Typ[types.Int64]}
	}
	specBuiltins["collen"] = func(env *SpecEnv, e *Expr) SVal {
		return SVal{T: UF("colLen", "Int", env.eval(e.Args[0]).T, env.eval(e.Args[1]).T)}
	}
	specBuiltins["colbytes"] = func(env *SpecEnv, e *Expr) SVal {
		return SVal{T: UF("colBytes", sortBytes, env.eval(e.Args[0]).T, env.eval(e.Args[1]).T)}
	}
	specBuiltins["uuidparse"] = func(env *SpecEnv, e *Expr) SVal {
		return SVal{T: UF("uuidparse", sortUUID, env.eval(e.Args[0]).T)}
	}
	specBuiltins["uuidparses"] = func(env *SpecEnv, e *Expr) SVal {
		return SVal{T: UF("uuidparses", "Bool", env.eval(e.Args[0]).T)}
	}
}


func init() {
	// sqldelete(q, "table"): q is literally a DELETE of the one row of that table whose id column equals $id
	specBuiltins["sqldelete"] = func(env *SpecEnv, e *Expr) SVal {
		q := env.eval(e.Args[0]).T
		t := env.eval(e.Args[1]).T
		qs, ok1 := strLitOf[q]
		ts, ok2 := strLitOf[t]
		if !ok1 || !ok2 {
			// not a compile-time constant here: decided by the solver only if it can equate q with a known literal
			return SVal{T: UF("sqlDeleteByID", "Bool", q, t)}
		}
		re := regexp.MustCompile(`(?is)^\s*delete\s+from\s+` + regexp.QuoteMeta(ts) + `\s+where\s+id\s*=\s*\$id\s*;?\s*$`)
		return SVal{T: BoolT(re.MatchString(qs))}
	}
	// sqlcountbyid(q, "table"): q is literally SELECT COUNT(*) FROM table WHERE id = ? (id a column reference, one positional argument)
	specBuiltins["sqlcountbyid"] = func(env *SpecEnv, e *Expr) SVal {
		q := env.eval(e.Args[0]).T
		t := env.eval(e.Args[1]).T
		qs, ok1 := strLitOf[q]
		ts, ok2 := strLitOf[t]
		if !ok1 || !ok2 {
			return SVal{T: UF("sqlCountByID", "Bool", q, t)}
		}
		re := regexp.MustCompile(`(?is)^\s*select\s+count\(\*\)\s+from\s+["\x60]?` + regexp.QuoteMeta(ts) + `["\x60]?\s+where\s+["\x60]?id["\x60]?\s*=\s*\?\s*;?\s*$`)
		return SVal{T: BoolT(re.MatchString(qs))}
	}
}


// strFold: the compile-time text of a string term built from literals by concatenation, if it is one
func strFold(t *Term) (string, bool) {
	if s, ok := strLitOf[t]; ok {
		return s, true
	}
	if t.Op == "str.concat" && len(t.Args) == 2 {
		a, ok1 := strFold(t.Args[0])
		b, ok2 := strFold(t.Args[1])
		return a + b, ok1 && ok2
	}
	return "", false
}

func init() {
	// sqllist(q, limited): q is literally the listing of table plans, all rows, newest submission first -
	// SELECT <the eight result columns> FROM plans ORDER BY submit_time DESC - followed by LIMIT $limit exactly when
	// limited. q may be a conditional over texts built from literals (the engine's if-then-else of the two forms).
	listRe := regexp.MustCompile(`(?is)^\s*select\s+id\s*,\s*group_id\s*,\s*name\s*,\s*descr\s*,\s*submit_time\s*,\s*state_status\s*,\s*state_start\s*,\s*state_end\s+from\s+plans\s+order\s+by\s+submit_time\s+desc(\s+limit\s+\$limit)?\s*;?\s*$`)
	var rec func(q, lim *Term) *Term
	rec = func(q, lim *Term) *Term {
		if q.Op == "ite" && len(q.Args) == 3 {
			return Ite(q.Args[0], rec(q.Args[1], lim), rec(q.Args[2], lim))
		}
		// a captured variable lives in a cell: read of a conditional heap = conditional of the reads
		if q.Op == "select" && len(q.Args) == 2 && q.Args[0].Op == "ite" && len(q.Args[0].Args) == 3 {
			h := q.Args[0]
			return Ite(h.Args[0], rec(Select(h.Args[1], q.Args[1]), lim), rec(Select(h.Args[2], q.Args[1]), lim))
		}
		qs, ok := strFold(q)
		if !ok {
			if os.Getenv("GOVC_DEBUG_SQL") != "" {
				fmt.Fprintln(os.Stderr, "sqllist: not foldable:", q.String())
			}
			return UF("sqlListNewestFirst", "Bool", q, lim)
		}
		m := listRe.FindStringSubmatch(qs)
		if m == nil {
			return False
		}
		if m[1] != "" {
			return lim
		}
		return Not(lim)
	}
	// cosmoslist(q, limited): the Cosmos DB listing - SELECT <the eight result fields> FROM c WHERE c.swarm=@swarm
	// ORDER BY c.submitTime DESC - followed by OFFSET 0 LIMIT @limit exactly when limited
	cosmosListRe := regexp.MustCompile(`(?is)^\s*select\s+c\.id\s*,\s*c\.groupID\s*,\s*c\.name\s*,\s*c\.descr\s*,\s*c\.submitTime\s*,\s*c\.stateStatus\s*,\s*c\.stateStart\s*,\s*c\.stateEnd\s+from\s+c\s+where\s+c\.swarm\s*=\s*@swarm\s+order\s+by\s+c\.submitTime\s+desc(\s+offset\s+0\s+limit\s+@limit)?\s*;?\s*$`)
	var crec func(q, lim *Term) *Term
	crec = func(q, lim *Term) *Term {
		if q.Op == "ite" && len(q.Args) == 3 {
			return Ite(q.Args[0], crec(q.Args[1], lim), crec(q.Args[2], lim))
		}
		if q.Op == "select" && len(q.Args) == 2 && q.Args[0].Op == "ite" && len(q.Args[0].Args) == 3 {
			h := q.Args[0]
			return Ite(h.Args[0], crec(Select(h.Args[1], q.Args[1]), lim), crec(Select(h.Args[2], q.Args[1]), lim))
		}
		qs, ok := strFold(q)
		if !ok {
			if os.Getenv("GOVC_DEBUG_SQL") != "" {
				fmt.Fprintln(os.Stderr, "cosmoslist: not foldable:", q.String())
			}
			return UF("cosmosListNewestFirst", "Bool", q, lim)
		}
		m := cosmosListRe.FindStringSubmatch(qs)
		if m == nil {
			return False
		}
		if m[1] != "" {
			return lim
		}
		return Not(lim)
	}
	specBuiltins["cosmoslist"] = func(env *SpecEnv, e *Expr) SVal {
		return SVal{T: crec(env.eval(e.Args[0]).T, env.boolean(e.Args[1]))}
	}
	specBuiltins["sqllist"] = func(env *SpecEnv, e *Expr) SVal {
		return SVal{T: rec(env.eval(e.Args[0]).T, env.boolean(e.Args[1]))}
	}
}

func init() {
	// cbrow(): the row most recently delivered to the ResultFunc of the sqlitex.Execute in progress / just finished
	specBuiltins["cbrow"] = func(env *SpecEnv, e *Expr) SVal { return SVal{T: env.st.G("cbRow")} }
}

func init() {
	specBuiltins["uuidnil"] = func(env *SpecEnv, e *Expr) SVal {
		declareSort(sortUUID)
		return SVal{T: Const("uuid_nil", sortUUID)}
	}
}
