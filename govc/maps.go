package main

// Maps: a map value is a reference; its contents live in two heap arrays per (key sort, value sort):
//   MH_<K>_<V> : ref -> (K -> V)       the stored values
//   MP_<K>_<V> : ref -> (K -> Bool)    which keys are present
// Lookups and updates are exact; len() and range are not interpreted (unconstrained), a nil map has no keys.

import (
	"go/types"

	"golang.org/x/tools/go/ssa"
)

func mapHeapKeys(mt *types.Map) (vk, vs, pk, ps string) {
	ks, es := sortOf(mt.Key()), sortOf(mt.Elem())
	suffix := heapClass(mt.Key()) + "__" + heapClass(mt.Elem())
	vk, pk = "MH_"+suffix, "MP_"+suffix
	vs = arraySort("Int", arraySort(ks, es))
	ps = arraySort("Int", arraySort(ks, "Bool"))
	heapSorts[vk], heapSorts[pk] = vs, ps
	return
}

func (x *Exec) mapPresent(st *State, mt *types.Map, m, k *Term) *Term {
	_, _, pk, ps := mapHeapKeys(mt)
	return And(Not(Eq(m, Int(0))), Select(Select(st.H(pk, ps), m), k))
}

func (x *Exec) mapValue(st *State, mt *types.Map, m, k *Term) *Term {
	vk, vs, _, _ := mapHeapKeys(mt)
	return Ite(x.mapPresent(st, mt, m, k), Select(Select(st.H(vk, vs), m), k), zeroTerm(mt.Elem()))
}

func (x *Exec) doLookup(fr *Frame, st *State, ins *ssa.Lookup) Value {
	mt, ok := ins.X.Type().Underlying().(*types.Map)
	if !ok {
		// string indexing
		if tup, ok := ins.Type().(*types.Tuple); ok {
			return x.freshVal(st, "lookup", tup)
		}
		return x.freshVal(st, "lookup", ins.Type())
	}
	m := x.get(fr, st, ins.X).T
	k := x.get(fr, st, ins.Index).T
	v := x.mapValue(st, mt, m, k)
	x.assume(st, x.wf(st, v, mt.Elem()))
	out := Value{T: v}
	if v.Sort == sortFn {
		out.Clo = x.closureOf(v)
	}
	if ins.CommaOk {
		return Value{Tup: []Value{out, {T: x.mapPresent(st, mt, m, k)}}}
	}
	return out
}

func (x *Exec) doMapUpdate(fr *Frame, st *State, ins *ssa.MapUpdate) {
	mt := ins.Map.Type().Underlying().(*types.Map)
	m := x.get(fr, st, ins.Map).T
	k := x.get(fr, st, ins.Key).T
	v := x.firstClass(x.get(fr, st, ins.Value), mt.Elem())
	x.nilCheck(fr, st, m, ins, "assignment to entry in nil map")
	x.mapStore(st, mt, m, k, v, True)
}

func (x *Exec) mapStore(st *State, mt *types.Map, m, k, v, present *Term) {
	vk, vs, pk, ps := mapHeapKeys(mt)
	hv, hp := st.H(vk, vs), st.H(pk, ps)
	if v != nil {
		st.setCell(vk, Store(hv, m, Store(Select(hv, m), k, v)), m)
	}
	st.setCell(pk, Store(hp, m, Store(Select(hp, m), k, present)), m)
}

func (x *Exec) doMakeMap(fr *Frame, st *State, ins *ssa.MakeMap) Value {
	mt := ins.Type().Underlying().(*types.Map)
	m := x.newRef(st)
	_, _, pk, ps := mapHeapKeys(mt)
	hp := st.H(pk, ps)
	st.setCell(pk, Store(hp, m, ConstArray(arraySort(sortOf(mt.Key()), "Bool"), False)), m)
	return Value{T: m}
}

func (x *Exec) doMapDelete(fr *Frame, st *State, cc *ssa.CallCommon, args []Value) {
	mt := cc.Args[0].Type().Underlying().(*types.Map)
	m, k := args[0].T, args[1].T
	// delete on a nil map is a no-op
	live := st.clone()
	live.pc = And(st.pc, Not(Eq(m, Int(0))))
	x.mapStore(live, mt, m, k, nil, False)
	skip := st.clone()
	skip.pc = And(st.pc, Eq(m, Int(0)))
	*st = *mergeStates([]*State{live, skip}).clone()
}
