package main

// Evaluation of contract expressions to SMT terms against a (current, old) pair of
// symbolic states.

import (
	"fmt"
	"go/ast"
	"go/types"
	"sort"
	"strconv"
	"strings"

	"golang.org/x/tools/go/ssa"
)

type SpecDB struct {
	contracts map[string]*Contract
	macros    map[string]*MacroDef
	ufuncs    map[string]*UFuncDef
	axioms    []*AxiomDef
	lemmas    []*LemmaDef
	files     []string
	hfuncs    map[string]*HFuncDef
	hpkg      map[string]string // hfunc -> package name of the file declaring it
	fnTypes   map[string]string // "pkgname.Type" -> apply UF name (functional function types)
	chains    []*ChainDef
	chainPkg  map[*ChainDef]string
}

func newSpecDB() *SpecDB {
	return &SpecDB{contracts: map[string]*Contract{}, macros: map[string]*MacroDef{}, ufuncs: map[string]*UFuncDef{}, hfuncs: map[string]*HFuncDef{}, hpkg: map[string]string{}, fnTypes: map[string]string{}, chainPkg: map[*ChainDef]string{}}
}

func (db *SpecDB) add(sf *SpecFile, prefix string, file string) error {
	for _, c := range sf.Contracts {
		key := c.Func
		if prefix != "" {
			key = prefix + "." + c.Func
		}
		if _, dup := db.contracts[key]; dup {
			return fmt.Errorf("%s:%d: duplicate contract for %s", c.File, c.Line, key)
		}
		c.Func = key
		db.contracts[key] = c
	}
	for _, m := range sf.Macros {
		k := m.Name
		if prefix != "" {
			k = prefix + "." + m.Name // macros of a contract file are scoped to its package
		}
		if _, dup := db.macros[k]; dup {
			return fmt.Errorf("%s: duplicate macro %s", file, m.Name)
		}
		db.macros[k] = m
	}
	for _, u := range sf.UFuncs {
		db.ufuncs[u.Name] = u
		declare(u.Name, u.Params, u.Sort)
	}
	for _, s := range sf.Sorts {
		declareSort(s)
	}
	for _, g := range sf.Ghosts {
		ghostSorts[g.Name] = g.Sort
	}
	for _, h := range sf.HFuncs {
		db.hfuncs[h.Name] = h
		db.hpkg[h.Name] = prefix
	}
	for _, c := range sf.Chains {
		db.chains = append(db.chains, c)
		db.chainPkg[c] = prefix
	}
	for _, ft := range sf.FnTypes {
		db.fnTypes[prefix+"."+ft] = "apply_" + smtName(prefix+"_"+ft)
	}
	db.axioms = append(db.axioms, sf.Axioms...)
	db.lemmas = append(db.lemmas, sf.Lemmas...)
	db.files = append(db.files, file)
	return nil
}

func (db *SpecDB) contractFor(fn *ssa.Function) *Contract {
	return db.contracts[funcKey(fn)]
}

type SVal struct {
	T     *Term
	GT    types.Type // Go type if known
	LV    *LValue    // location, when the expression designates one
	IsNil bool
	All   string // for modifies items: "fields" (x.*) or "elems" (x[*])
	Base  *SVal  // for All: the container
}

type SpecEnv struct {
	x    *Exec
	vars map[string]SVal
	st   *State
	old  *State
	pkg  *types.Package
	lets map[string]*Expr
	fr   *Frame // for invariants: locals
	loop *LoopInfo
	self string // name of function (diagnostics)
	free map[string]freeBinding
	qdepth int // nesting depth of quantifiers (bound variable names are unique per depth)
	derefs *[]*Term // when set: collects "p != nil" for every pointer dereferenced (modifies items)
}

type specError struct{ msg string }

var namedFormulas = map[*Term]*Term{}

func (env *SpecEnv) errf(e *Expr, f string, a ...any) {
	panic(unsupported{fmt.Sprintf("%s:%d: spec: %s", shortFile(e.File), e.Line, fmt.Sprintf(f, a...))})
}

// wfRead records the heap well-formedness of a value read by a specification (a global
// invariant of Go heaps: every stored reference is below the allocation watermark).
func (env *SpecEnv) wfRead(t *Term, gt types.Type) {
	if t == nil || t.hasBV || gt == nil || env.x.dry > 0 {
		return
	}
	if f := env.x.wf(env.st, t, gt); f != True {
		env.x.facts = append(env.x.facts, Implies(env.st.pc, f))
	}
}

func (env *SpecEnv) macro(name string) *MacroDef {
	if env.pkg != nil {
		if m, ok := env.x.specs.macros[env.pkg.Name()+"."+name]; ok {
			return m
		}
	}
	if m, ok := env.x.specs.macros[name]; ok {
		return m
	}
	return nil
}

func (env *SpecEnv) with(st *State) *SpecEnv {
	n := *env
	n.st = st
	return &n
}

func (env *SpecEnv) bind(name string, v SVal) *SpecEnv {
	n := *env
	n.vars = make(map[string]SVal, len(env.vars)+1)
	for k, x := range env.vars {
		n.vars[k] = x
	}
	n.vars[name] = v
	return &n
}

func (env *SpecEnv) boolean(e *Expr) *Term {
	v := env.eval(e)
	if v.T == nil || v.T.Sort != "Bool" {
		env.errf(e, "expected boolean, got %v", sortName(v))
	}
	return v.T
}

func sortName(v SVal) string {
	if v.T == nil {
		return "<none>"
	}
	return v.T.Sort
}

func (env *SpecEnv) eval(e *Expr) SVal {
	switch e.Kind {
	case "int":
		n, _ := strconv.ParseInt(e.Name, 10, 64)
		return SVal{T: Int(n)}
	case "bool":
		return SVal{T: BoolT(e.Name == "true")}
	case "str":
		return SVal{T: strLit(e.Name), GT: types.Typ[types.String]}
	case "nil":
		return SVal{IsNil: true}
	case "id":
		return env.evalIdent(e)
	case "un":
		a := env.eval(e.Args[0])
		switch e.Name {
		case "!":
			return SVal{T: Not(a.T)}
		case "-":
			return SVal{T: Neg(a.T)}
		}
	case "bin":
		return env.evalBin(e)
	case "cond":
		c := env.boolean(e.Args[0])
		if c.hasQ && !c.hasBV {
			// a quantified condition inside a term: name it by a Boolean constant (defined by a global fact)
			if n, ok := namedFormulas[c]; ok {
				c = n
			} else {
				n := Fresh("qc", "Bool")
				namedFormulas[c] = n
				if env.x.dry == 0 {
					env.x.facts = append(env.x.facts, Eq(n, c))
				} else {
					delete(namedFormulas, c)
				}
				c = n
			}
		}
		a := env.eval(e.Args[1])
		b := env.eval(e.Args[2])
		a, b = env.unifyNil(a, b, e)
		return SVal{T: Ite(c, a.T, b.T), GT: a.GT}
	case "quant":
		n := env
		var bound []*Term
		for _, v := range e.Vars {
			s := v.Sort
			if s == "" {
				s = "Int"
			}
			var gt types.Type
			if !(s == "Int" || s == "Bool" || strings.HasPrefix(s, "(") || uninterpSorts[s] || dtTab[s] != nil) {
				t, err := env.x.w.parseGoType(s, env.pkg)
				if err != nil {
					env.errf(e, "quantified variable %s: %v", v.Name, err)
				}
				gt = t
				s = sortOf(t)
			} else if t, ok := goTypeOfSort[s]; ok {
				gt = t
			}
			bv := BoundVar(fmt.Sprintf("q_%s_%d", v.Name, env.qdepth), s)
			bound = append(bound, bv)
			n = n.bind(v.Name, SVal{T: bv, GT: gt})
		}
		n.qdepth = env.qdepth + 1
		body := n.boolean(e.Args[0])
		var pats [][]*Term
		for _, p := range e.Pats {
			var ts []*Term
			for _, pe := range p {
				ts = append(ts, n.eval(pe).T)
			}
			pats = append(pats, ts)
		}
		if e.Name == "forall" {
			return SVal{T: Forall(bound, pats, body)}
		}
		return SVal{T: Exists(bound, body)}
	case "set":
		a := env.eval(e.Args[0])
		var ds []*Term
		for _, m := range e.Args[1:] {
			b := env.eval(m)
			a2, b2 := env.unifyNil(a, b, e)
			ds = append(ds, Eq(a2.T, b2.T))
		}
		r := Or(ds...)
		if e.Name == "!in" {
			r = Not(r)
		}
		return SVal{T: r}
	case "field":
		return env.evalField(e)
	case "index":
		return env.evalIndex(e)
	case "slice":
		b := env.eval(e.Args[0])
		if b.T == nil || b.T.Sort != sortSlice {
			env.errf(e, "slicing a non-slice")
		}
		lo := Int(0)
		if e.Args[1] != nil {
			lo = env.eval(e.Args[1]).T
		}
		hi := sLen(b.T)
		if e.Args[2] != nil {
			hi = env.eval(e.Args[2]).T
		}
		return SVal{T: Mk(sortSlice, sArr(b.T), Add(sOff(b.T), lo), Sub(hi, lo), Sub(sCap(b.T), lo)), GT: b.GT}
	case "call":
		return env.evalCall(e)
	}
	env.errf(e, "cannot evaluate %s", e)
	return SVal{}
}

func (env *SpecEnv) unifyNil(a, b SVal, e *Expr) (SVal, SVal) {
	if a.IsNil && b.IsNil {
		return SVal{T: Int(0)}, SVal{T: Int(0)}
	}
	if a.IsNil {
		a = env.nilOf(b, e)
	}
	if b.IsNil {
		b = env.nilOf(a, e)
	}
	return a, b
}

func (env *SpecEnv) nilOf(like SVal, e *Expr) SVal {
	if like.T == nil {
		env.errf(e, "nil compared with a non-value")
	}
	switch like.T.Sort {
	case "Int":
		return SVal{T: Int(0), GT: like.GT}
	case sortSlice:
		return SVal{T: NilSlice(), GT: like.GT}
	case sortIface:
		return SVal{T: NilIface(), GT: like.GT}
	case sortFn:
		return SVal{T: NilFn(), GT: like.GT}
	}
	env.errf(e, "nil of sort %s", like.T.Sort)
	return SVal{}
}

func (env *SpecEnv) evalIdent(e *Expr) SVal {
	if v, ok := env.vars[e.Name]; ok {
		return v
	}
	if le, ok := env.lets[e.Name]; ok {
		return env.eval(le)
	}
	if fb, ok := env.free[e.Name]; ok {
		t := env.x.loadPtr(env.st, fb.ptr, fb.elem)
		env.wfRead(t, fb.elem)
		return SVal{T: t, GT: fb.elem}
	}
	if env.fr != nil {
		if v, ok := env.localVar(e.Name); ok {
			return v
		}
	}
	if _, ok := ghostSorts[e.Name]; ok {
		return SVal{T: env.st.G(e.Name)}
	}
	if m := env.macro(e.Name); m != nil && len(m.Params) == 0 {
		return env.eval(m.Body)
	}
	// package-level constant of the current package
	if env.pkg != nil {
		if o := env.pkg.Scope().Lookup(e.Name); o != nil {
			if c, ok := o.(*types.Const); ok {
				return env.constVal(c, e)
			}
		}
	}
	if d, ok := symTab[e.Name]; ok && len(d.params) == 0 {
		return SVal{T: Const(e.Name, d.sort)}
	}
	env.errf(e, "unknown identifier %q", e.Name)
	return SVal{}
}

func (env *SpecEnv) constVal(c *types.Const, e *Expr) SVal {
	sc := ssa.NewConst(c.Val(), c.Type())
	return SVal{T: env.x.constTerm(sc), GT: c.Type()}
}

// localVar resolves a Go local by name in the frame of an invariant: loop-head phis by
// comment, address-taken locals (Alloc) by comment, parameters and free variables.
func (env *SpecEnv) localVar(name string) (SVal, bool) {
	fr := env.fr
	for _, p := range fr.fn.Params {
		if p.Name() == name {
			return env.fromValue(fr.regs[p], p.Type()), true
		}
	}
	for _, p := range fr.fn.FreeVars {
		if p.Name() == name {
			// free variables are pointers to the captured variable
			v := fr.regs[p]
			if pt, ok := p.Type().Underlying().(*types.Pointer); ok {
				t := env.x.loadPtr(env.st, v, pt.Elem())
				return SVal{T: t, GT: pt.Elem()}, true
			}
			return env.fromValue(v, p.Type()), true
		}
	}
	if env.loop != nil {
		for _, ins := range env.loop.Head.Instrs {
			if phi, ok := ins.(*ssa.Phi); ok && phi.Comment == name {
				if v, ok := fr.regs[phi]; ok {
					return env.fromValue(v, phi.Type()), true
				}
			}
		}
	}
	// source-level identifiers through debug references (ssa.GlobalDebug)
	var cand ssa.Value
	nc := 0
	for _, b := range fr.fn.Blocks {
		for _, ins := range b.Instrs {
			if d, ok := ins.(*ssa.DebugRef); ok && !d.IsAddr {
				if id, ok := d.Expr.(*ast.Ident); ok && id.Name == name {
					if _, isPhi := d.X.(*ssa.Phi); isPhi {
						continue
					}
					if cand != d.X {
						if _, have := fr.regs[d.X]; have || isConstLike(d.X) {
							cand = d.X
							nc++
						}
					}
				}
			}
		}
	}
	if nc == 1 {
		return env.fromValue(env.x.get(fr, env.st, cand), cand.Type()), true
	}
	for _, b := range fr.fn.Blocks {
		for _, ins := range b.Instrs {
			switch ins := ins.(type) {
			case *ssa.Alloc:
				if ins.Comment == name {
					if v, ok := fr.regs[ins]; ok {
						et := ins.Type().Underlying().(*types.Pointer).Elem()
						return SVal{T: env.x.loadPtr(env.st, v, et), GT: et}, true
					}
				}
			case *ssa.Phi:
				if ins.Comment == name {
					if v, ok := fr.regs[ins]; ok {
						return env.fromValue(v, ins.Type()), true
					}
				}
			}
		}
	}
	return SVal{}, false
}

// localVarAddrFirst: address-taken locals (Alloc by comment) first, then the usual lookup.
func (env *SpecEnv) localVarAddrFirst(name string) (SVal, bool) {
	fr := env.fr
	for _, b := range fr.fn.Blocks {
		for _, ins := range b.Instrs {
			if a, ok := ins.(*ssa.Alloc); ok && a.Comment == name {
				if v, ok := fr.regs[a]; ok {
					et := a.Type().Underlying().(*types.Pointer).Elem()
					return SVal{T: env.x.loadPtr(env.st, v, et), GT: et}, true
				}
			}
		}
	}
	return env.localVar(name)
}

func isConstLike(v ssa.Value) bool {
	switch v.(type) {
	case *ssa.Const, *ssa.Function, *ssa.Global:
		return true
	}
	return false
}

func (env *SpecEnv) fromValue(v Value, t types.Type) SVal {
	return SVal{T: v.T, GT: t, LV: v.LV}
}

func (env *SpecEnv) evalBin(e *Expr) SVal {
	switch e.Name {
	case "&&":
		return SVal{T: And(env.boolean(e.Args[0]), env.boolean(e.Args[1]))}
	case "||":
		return SVal{T: Or(env.boolean(e.Args[0]), env.boolean(e.Args[1]))}
	case "==>":
		return SVal{T: Implies(env.boolean(e.Args[0]), env.boolean(e.Args[1]))}
	case "<==>":
		return SVal{T: Eq(env.boolean(e.Args[0]), env.boolean(e.Args[1]))}
	}
	a := env.eval(e.Args[0])
	b := env.eval(e.Args[1])
	switch e.Name {
	case "==", "!=":
		a, b = env.unifyNil(a, b, e)
		if a.T == nil || b.T == nil {
			env.errf(e, "comparison of non-values")
		}
		if a.T.Sort != b.T.Sort {
			env.errf(e, "comparison of %s with %s in %s", a.T.Sort, b.T.Sort, e)
		}
		r := Eq(a.T, b.T)
		if e.Name == "!=" {
			r = Not(r)
		}
		return SVal{T: r}
	}
	if a.T == nil || b.T == nil || a.T.Sort != "Int" || b.T.Sort != "Int" {
		env.errf(e, "arithmetic on non-integers in %s", e)
	}
	switch e.Name {
	case "<":
		return SVal{T: Lt(a.T, b.T)}
	case "<=":
		return SVal{T: Le(a.T, b.T)}
	case ">":
		return SVal{T: Gt(a.T, b.T)}
	case ">=":
		return SVal{T: Ge(a.T, b.T)}
	case "+":
		return SVal{T: Add(a.T, b.T), GT: a.GT}
	case "-":
		return SVal{T: Sub(a.T, b.T), GT: a.GT}
	case "*":
		return SVal{T: Mul(a.T, b.T), GT: a.GT}
	}
	env.errf(e, "operator %s", e.Name)
	return SVal{}
}

// evalField: x.f where x is a pointer to struct (implicit dereference in env.st),
// a struct value, or a package qualifier (pkg.Const).
func (env *SpecEnv) evalField(e *Expr) SVal {
	// package-qualified constant?
	if id := e.Args[0]; id.Kind == "id" {
		if _, isVar := env.vars[id.Name]; !isVar {
			if _, isLet := env.lets[id.Name]; !isLet {
				if env.fr == nil || !env.isLocal(id.Name) {
					if p := env.x.w.pkgByName(id.Name, env.pkg); p != nil {
						o := p.Scope().Lookup(e.Name)
						if c, ok := o.(*types.Const); ok {
							return env.constVal(c, e)
						}
						if o != nil {
							if v, ok := o.(*types.Var); ok {
								// package-level variable: its cell
								g := Const("glob_"+smtName(p.Name()+"_"+v.Name()), "Int")
								if kt := env.x.knownGlobalByName(p.Path() + "." + v.Name(), v.Type()); kt != nil {
									return SVal{T: kt, GT: v.Type()}
								}
								return SVal{T: env.x.loadPtr(env.st, Value{T: g}, v.Type()), GT: v.Type()}
							}
						}
					}
				}
			}
		}
	}
	b := env.eval(e.Args[0])
	if e.Name == "*" {
		return SVal{All: "fields", Base: &b}
	}
	if b.GT == nil {
		env.errf(e, "field %s of a value without Go type (%s)", e.Name, e.Args[0])
	}
	t := b.GT
	if pt, ok := t.Underlying().(*types.Pointer); ok {
		st, ok := pt.Elem().Underlying().(*types.Struct)
		if !ok {
			env.errf(e, "field of pointer to non-struct")
		}
		i := fieldIndex(st, e.Name)
		if i < 0 {
			env.errf(e, "type %s has no field %s", pt.Elem(), e.Name)
		}
		ptr := Value{T: b.T}
		if b.T == nil {
			ptr.LV = b.LV // an interior pointer held in a register
		} else if env.derefs != nil {
			*env.derefs = append(*env.derefs, Not(Eq(b.T, Int(0))))
		}
		lv := env.x.fieldLV(ptr, pt.Elem(), i)
		t := env.x.readLV(env.st, lv)
		env.wfRead(t, st.Field(i).Type())
		return SVal{T: t, GT: st.Field(i).Type(), LV: lv}
	}
	if st, ok := t.Underlying().(*types.Struct); ok && !isTimeTime(t) {
		i := fieldIndex(st, e.Name)
		if i < 0 {
			env.errf(e, "type %s has no field %s", t, e.Name)
		}
		out := SVal{T: Acc(b.T, i), GT: st.Field(i).Type()}
		if b.LV != nil {
			lv := *b.LV
			lv.Path = append(append([]int{}, lv.Path...), i)
			lv.Typ = st.Field(i).Type()
			out.LV = &lv
		}
		return out
	}
	env.errf(e, "field %s of non-struct type %s", e.Name, t)
	return SVal{}
}

func (x *Exec) knownGlobalByName(name string, t types.Type) *Term {
	switch name {
	case "github.com/google/uuid.Nil":
		return zeroTerm(t)
	}
	return nil
}

func (env *SpecEnv) isLocal(name string) bool {
	_, ok := env.localVar(name)
	return ok
}

func fieldIndex(st *types.Struct, name string) int {
	for i := 0; i < st.NumFields(); i++ {
		if st.Field(i).Name() == name {
			return i
		}
	}
	return -1
}

func (env *SpecEnv) evalIndex(e *Expr) SVal {
	b := env.eval(e.Args[0])
	if e.Args[1].Kind == "id" && e.Args[1].Name == "*" {
		return SVal{All: "elems", Base: &b}
	}
	i := env.eval(e.Args[1])
	if b.T == nil {
		env.errf(e, "indexing a non-value")
	}
	switch {
	case b.T.Sort == sortSlice:
		var et types.Type
		if b.GT != nil {
			if sl, ok := b.GT.Underlying().(*types.Slice); ok {
				et = sl.Elem()
			}
		}
		if et == nil {
			env.errf(e, "indexing a slice of unknown element type")
		}
		lv := env.x.elemLV(env.st, b.T, i.T, et)
		t := env.x.readLV(env.st, lv)
		env.wfRead(t, et)
		return SVal{T: t, GT: et, LV: lv}
	case strings.HasPrefix(b.T.Sort, "(Array "):
		var et types.Type
		if b.GT != nil {
			if at, ok := b.GT.Underlying().(*types.Array); ok {
				et = at.Elem()
			}
		}
		return SVal{T: Select(b.T, i.T), GT: et}
	}
	env.errf(e, "indexing a value of sort %s", b.T.Sort)
	return SVal{}
}

func (env *SpecEnv) evalCall(e *Expr) SVal {
	switch e.Name {
	case "old":
		if env.old == nil {
			env.errf(e, "old() not available here")
		}
		return env.with(env.old).eval(e.Args[0])
	case "len", "cap":
		a := env.eval(e.Args[0])
		if a.T == nil {
			env.errf(e, "len of non-value")
		}
		switch a.T.Sort {
		case sortSlice:
			if e.Name == "len" {
				return SVal{T: sLen(a.T)}
			}
			return SVal{T: sCap(a.T)}
		case sortStr:
			return SVal{T: UF("str.len", "Int", a.T)}
		}
		env.errf(e, "len of sort %s", a.T.Sort)
	case "typeis":
		a := env.eval(e.Args[0])
		t := env.goType(e.Args[1])
		if a.T == nil || a.T.Sort != sortIface {
			env.errf(e, "typeis on non-interface")
		}
		return SVal{T: Eq(Acc(a.T, 0), typeTag(t))}
	case "tagof":
		return SVal{T: typeTag(env.goType(e.Args[0]))}
	case "tag":
		a := env.eval(e.Args[0])
		return SVal{T: Acc(a.T, 0)}
	case "ref":
		a := env.eval(e.Args[0])
		if a.T == nil || a.T.Sort != sortIface {
			env.errf(e, "ref() on non-interface")
		}
		return SVal{T: Acc(a.T, 1)}
	case "as":
		a := env.eval(e.Args[0])
		t := env.goType(e.Args[1])
		if a.T == nil || a.T.Sort != sortIface {
			env.errf(e, "as() on non-interface")
		}
		return SVal{T: env.x.unbox(Acc(a.T, 1), t), GT: t}
	case "iface":
		// iface(x): the interface value holding pointer x with its static type
		a := env.eval(e.Args[0])
		if a.GT == nil {
			env.errf(e, "iface() needs a typed value")
		}
		return SVal{T: env.x.makeIface(env.st, Value{T: a.T}, a.GT)}
	case "zero":
		t := env.goType(e.Args[0])
		return SVal{T: zeroTerm(t), GT: t}
	case "zeroarr":
		t := env.goType(e.Args[0])
		return SVal{T: ConstArray(arraySort("Int", sortOf(t)), zeroTerm(t))}
	case "store":
		a := env.eval(e.Args[0])
		i := env.eval(e.Args[1])
		v := env.eval(e.Args[2])
		return SVal{T: Store(a.T, i.T, v.T)}
	case "select":
		a := env.eval(e.Args[0])
		i := env.eval(e.Args[1])
		return SVal{T: Select(a.T, i.T)}
	case "fresh":
		a := env.eval(e.Args[0])
		if env.old == nil {
			env.errf(e, "fresh() needs an old state")
		}
		ref := a.T
		if ref.Sort == sortSlice {
			ref = sArr(ref)
		}
		if ref.Sort != "Int" {
			env.errf(e, "fresh() of sort %s", ref.Sort)
		}
		return SVal{T: And(Ge(ref, env.old.alloc), Lt(ref, env.st.alloc))}
	case "allocated":
		a := env.eval(e.Args[0])
		return SVal{T: And(Gt(a.T, Int(0)), Lt(a.T, env.st.alloc))}
	case "unchanged":
		cur := env.eval(e.Args[0])
		old := env.with(env.old).eval(e.Args[0])
		return SVal{T: Eq(cur.T, old.T)}
	case "arr", "off":
		a := env.eval(e.Args[0])
		if e.Name == "arr" {
			return SVal{T: sArr(a.T)}
		}
		return SVal{T: sOff(a.T)}
	case "idx":
		n, _ := strconv.Atoi(e.Args[0].Name)
		if env.fr == nil || n < 1 || n > len(env.fr.info.LoopOrd) {
			env.errf(e, "idx(%d): no such loop", n)
		}
		l := env.fr.info.LoopOrd[n-1]
		if l.RangeIx == nil && l.CountIx != nil {
			// a counted loop: the induction variable itself is the number of completed iterations
			v, ok := env.fr.regs[l.CountIx]
			if !ok {
				env.errf(e, "idx(%d): loop counter not yet defined", n)
			}
			return SVal{T: v.T}
		}
		if l.RangeIx == nil {
			env.errf(e, "idx(%d): loop has neither a range index nor a counter starting at 0 and stepping by 1", n)
		}
		v, ok := env.fr.regs[l.RangeIx]
		if !ok {
			env.errf(e, "idx(%d): range index not yet defined", n)
		}
		return SVal{T: Add(v.T, Int(1))}
	case "now":
		// now(x): the value of source variable x that reaches this program point (invariants, monitors)
		if env.fr == nil || e.Args[0].Kind != "id" {
			env.errf(e, "now(x) needs a frame and an identifier")
		}
		v, ok := env.reachingDef(e.Args[0].Name)
		if !ok {
			// the named local no longer exists (renamed?): if the loop carries exactly one variable besides its
			// counter, the invariant can only mean that one. Binding it is safe - the invariant is still checked at
			// entry and at every back edge, so a wrong guess fails, it never passes silently.
			if alt, altName, ok2 := env.onlyCarried(); ok2 {
				env.x.assumed[fmt.Sprintf("%s: invariant names local %q, which does not exist any more; read as the loop's only carried variable %q", env.x.curKey, e.Args[0].Name, altName)] = true
				return alt
			}
			env.errf(e, "now(%s): no reaching definition found", e.Args[0].Name)
		}
		return v
	case "method":
		// method(recv, name): the method value recv.name as a function value
		a := env.eval(e.Args[0])
		if a.GT == nil || e.Args[1].Kind != "id" {
			env.errf(e, "method(recv, name) needs a typed receiver and a method name")
		}
		f := env.x.boundMethod(a.GT, e.Args[1].Name)
		if f == nil {
			env.errf(e, "no method value %s.%s is ever taken in /repo", a.GT, e.Args[1].Name)
		}
		return SVal{T: Mk(sortFn, Int(int64(env.x.fnID(f))), env.x.boundEnv(env.st, a.T, a.GT))}
	case "local":
		// local(x): the current value of the Go variable x of the function under verification, even if a contract
		// parameter of the same name (its entry value) exists
		if env.fr == nil || e.Args[0].Kind != "id" {
			env.errf(e, "local(x) needs a frame and an identifier")
		}
		v, ok := env.localVarAddrFirst(e.Args[0].Name)
		if !ok {
			env.errf(e, "local(%s): no such variable", e.Args[0].Name)
		}
		return v
	case "fnenv":
		// fnenv(f): the environment of a function value (for a context.CancelFunc: the context it cancels)
		a := env.eval(e.Args[0])
		if a.T == nil || a.T.Sort != sortFn {
			env.errf(e, "fnenv() of a non-function")
		}
		return SVal{T: Acc(a.T, 1)}
	case "group":
		// group(g): the identity of the sync.Group held in local variable g
		a := env.eval(e.Args[0])
		if a.T == nil {
			env.errf(e, "group() of a non-value")
		}
		g, ok := env.x.groupOf[a.T]
		if !ok {
			env.errf(e, "group(): not a value obtained from Pool.Group()")
		}
		return SVal{T: g}
	case "contents":
		a := env.eval(e.Args[0])
		if a.T == nil || a.T.Sort != sortSlice || a.GT == nil {
			env.errf(e, "contents() of a non-slice")
		}
		et := a.GT.Underlying().(*types.Slice).Elem()
		key, hs := elemHeapKey(et)
		row := Select(env.st.H(key, hs), sArr(a.T))
		return SVal{T: normArray(row, sOff(a.T), sLen(a.T), et)}
	case "trim":
		a := env.eval(e.Args[0])
		return SVal{T: trimSpaceTerm(a.T), GT: a.GT}
	case "wlen":
		// wlen(p): number of items walk.Plan(p) yields (iter rule)
		a := env.eval(e.Args[0])
		return SVal{T: env.x.walkLen(env.st, a.T)}
	case "wobj", "wparent":
		// wobj(p, k): the Value of item k of walk.Plan(p); wparent(p, k): the last element of its Chain
		a := env.eval(e.Args[0])
		k := env.eval(e.Args[1])
		wf := env.x.w.pkgByName("workflow", nil)
		var gt types.Type
		if wf != nil {
			if o := wf.Scope().Lookup("Object"); o != nil {
				gt = o.Type()
			}
		}
		if e.Name == "wobj" {
			return SVal{T: env.x.walkObj(env.st, a.T, k.T), GT: gt}
		}
		return SVal{T: env.x.walkParent(env.st, a.T, k.T), GT: gt}
	case "wfacts":
		// wfacts(p, k): the assumed facts of the iter rule about item k (usable in lemmas and contracts)
		a := env.eval(e.Args[0])
		k := env.eval(e.Args[1])
		return SVal{T: env.x.iterFacts(env.st, a.T, k.T)}
	}
	if b, ok := specBuiltins[e.Name]; ok {
		return b(env, e)
	}
	if m := env.macro(e.Name); m != nil {
		if len(m.Params) != len(e.Args) {
			env.errf(e, "macro %s: %d args, want %d", e.Name, len(e.Args), len(m.Params))
		}
		n := *env
		n.vars = make(map[string]SVal, len(env.vars)+len(m.Params))
		for k, v := range env.vars {
			n.vars[k] = v
		}
		for i, p := range m.Params {
			n.vars[p] = env.eval(e.Args[i])
		}
		return n.eval(m.Body)
	}
	if h, ok := env.x.specs.hfuncs[e.Name]; ok {
		return env.callHFunc(h, e)
	}
	if ft := env.x.fnTypeByUF(e.Name); ft != nil {
		var args []*Term
		for _, a := range e.Args {
			args = append(args, env.eval(a).T)
		}
		sig := ft.Underlying().(*types.Signature)
		rt := sig.Results().At(0).Type()
		return SVal{T: UF(e.Name, sortOf(rt), args...), GT: rt}
	}
	if u, ok := env.x.specs.ufuncs[e.Name]; ok {
		if len(u.Params) != len(e.Args) {
			env.errf(e, "ufunc %s: %d args, want %d", e.Name, len(e.Args), len(u.Params))
		}
		var args []*Term
		for i, a := range e.Args {
			v := env.eval(a)
			if v.IsNil {
				switch u.Params[i] {
				case "Int":
					v.T = Int(0)
				case sortIface:
					v.T = NilIface()
				case sortSlice:
					v.T = NilSlice()
				}
			}
			if v.T == nil || v.T.Sort != u.Params[i] {
				env.errf(e, "ufunc %s arg %d: sort %s, want %s", e.Name, i, sortName(v), u.Params[i])
			}
			args = append(args, v.T)
		}
		return SVal{T: App(e.Name, u.Sort, args...)}
	}
	env.errf(e, "unknown function %q", e.Name)
	return SVal{}
}

func (env *SpecEnv) goType(e *Expr) types.Type {
	if e.Kind != "type" {
		// allow plain identifiers / selector expressions
		e = &Expr{Kind: "type", Name: strings.ReplaceAll(e.String(), " ", ""), Line: e.Line, File: e.File}
	}
	t, err := env.x.w.parseGoType(e.Name, env.pkg)
	if err != nil {
		env.errf(e, "%v", err)
	}
	return t
}

// normArray(row, off, len) is the array c with c[i] = row[off+i] for 0 <= i < len and the
// zero value elsewhere: the contents of a slice, independent of its representation.
var normFuncs = map[string]types.Type{}

func normArray(row, off, n *Term, et types.Type) *Term {
	name := "norm_" + sortTag(sortOf(et))
	normFuncs[name] = et
	return UF(name, row.Sort, row, off, n)
}

func normAxioms() []*Term {
	var out []*Term
	var names []string
	for n := range normFuncs {
		names = append(names, n)
	}
	sort.Strings(names)
	for _, name := range names {
		et := normFuncs[name]
		rs := arraySort("Int", sortOf(et))
		row := BoundVar("q_row", rs)
		off := BoundVar("q_off", "Int")
		n := BoundVar("q_n", "Int")
		i := BoundVar("q_i", "Int")
		app := App(name, rs, row, off, n)
		out = append(out, Forall([]*Term{row, off, n, i}, [][]*Term{{Select(app, i)}},
			Eq(Select(app, i), Ite(And(Ge(i, Int(0)), Lt(i, n)), Select(row, ix(off, i)), zeroTerm(et)))))
	}
	return out
}

// heap-reading specification functions ------------------------------------------------

type hTemplate struct {
	params []*Term
	heaps  []*Term
	body   *Term
	sorts  []string
	gts    []types.Type
}

var hTemplates = map[string]*hTemplate{}

func (env *SpecEnv) hParamSort(h *HFuncDef, p HParam) (string, types.Type) {
	t := strings.TrimSpace(p.Type)
	if t == "Int" || t == "Bool" || strings.HasPrefix(t, "(") || uninterpSorts[t] || dtTab[t] != nil {
		return t, nil
	}
	pkg := env.x.w.pkgByName(env.x.specs.hpkg[h.Name], nil)
	gt, err := env.x.w.parseGoType(t, pkg)
	if err != nil {
		panic(unsupported{fmt.Sprintf("%s:%d: hfunc %s: %v", shortFile(h.File), h.Line, h.Name, err)})
	}
	return sortOf(gt), gt
}

func (env *SpecEnv) hSig(h *HFuncDef) ([]string, []types.Type) {
	var sorts []string
	var gts []types.Type
	for _, p := range h.Params {
		s, gt := env.hParamSort(h, p)
		sorts = append(sorts, s)
		gts = append(gts, gt)
	}
	return sorts, gts
}

func (env *SpecEnv) callHFunc(h *HFuncDef, e *Expr) SVal {
	if len(e.Args) != len(h.Params) {
		env.errf(e, "hfunc %s: %d args, want %d", h.Name, len(e.Args), len(h.Params))
	}
	sorts, _ := env.hSig(h)
	var args []*Term
	var psorts []string
	for i, a := range e.Args {
		v := env.eval(a)
		if v.IsNil {
			v = env.nilOf(SVal{T: Const("nil_dummy_"+sortTag(sorts[i]), sorts[i])}, e)
		}
		if v.T == nil || v.T.Sort != sorts[i] {
			env.errf(e, "hfunc %s arg %d: sort %s, want %s", h.Name, i, sortName(v), sorts[i])
		}
		args = append(args, v.T)
		psorts = append(psorts, sorts[i])
	}
	for _, k := range h.Reads {
		hs, ok := heapSorts[k]
		if !ok {
			env.errf(e, "hfunc %s reads unknown heap %s (not yet used by any code or contract)", h.Name, k)
		}
		args = append(args, env.st.H(k, hs))
		psorts = append(psorts, hs)
	}
	rs, rgt := env.hParamSort(h, HParam{"result", h.Ret})
	declare(h.Name, psorts, rs)
	return SVal{T: App(h.Name, rs, args...), GT: rgt}
}

// hfuncTemplate evaluates the body of h once over bound parameters and bound heap arrays.
func (x *Exec) hfuncTemplate(h *HFuncDef) *hTemplate {
	if t, ok := hTemplates[h.Name]; ok {
		return t
	}
	env := &SpecEnv{x: x, vars: map[string]SVal{}, lets: map[string]*Expr{}}
	env.pkg = x.w.pkgByName(x.specs.hpkg[h.Name], nil)
	sorts, gts := env.hSig(h)
	t := &hTemplate{sorts: sorts, gts: gts}
	hTemplates[h.Name] = t // recursion: callHFunc only needs the signature
	st := newState()
	st.alloc = BoundVar("hp_alloc", "Int")
	for i, p := range h.Params {
		bv := BoundVar("hp_"+h.Name+"_"+p.Name, sorts[i])
		t.params = append(t.params, bv)
		env.vars[p.Name] = SVal{T: bv, GT: gts[i]}
	}
	for _, k := range h.Reads {
		hs, ok := heapSorts[k]
		if !ok {
			panic(unsupported{fmt.Sprintf("hfunc %s reads unknown heap %s", h.Name, k)})
		}
		bv := BoundVar("hh_"+k, hs)
		t.heaps = append(t.heaps, bv)
		st.heap[k] = bv
	}
	st.sealed = true
	env.st = st
	env.old = st
	x.dry++
	v := env.eval(h.Body)
	x.dry--
	if rs, _ := env.hParamSort(h, HParam{"result", h.Ret}); v.T == nil || v.T.Sort != rs {
		panic(unsupported{fmt.Sprintf("hfunc %s: body has sort %s, want %s", h.Name, sortName(v), rs)})
	}
	t.body = v.T
	return t
}

// unfoldHFuncs adds, for every ground application of a heap-reading specification function
// occurring in ts, the instance of its definition (two rounds).
func (x *Exec) unfoldHFuncs(ts []*Term) []*Term {
	if len(x.specs.hfuncs) == 0 {
		return nil
	}
	seen := map[*Term]bool{}
	var out []*Term
	work := ts
	for round := 0; round < 2; round++ {
		var found []*Term
		visited := map[*Term]bool{}
		var rec func(t *Term)
		rec = func(t *Term) {
			if visited[t] {
				return
			}
			visited[t] = true
			for _, a := range t.Args {
				rec(a)
			}
			if t.kind == kApp && !t.hasBV && !seen[t] {
				if _, ok := x.specs.hfuncs[t.Op]; ok {
					seen[t] = true
					found = append(found, t)
				}
			}
		}
		for _, t := range work {
			rec(t)
		}
		if len(found) == 0 {
			break
		}
		var inst []*Term
		for _, app := range found {
			h := x.specs.hfuncs[app.Op]
			tpl := x.hfuncTemplate(h)
			m := map[*Term]*Term{}
			for i, p := range tpl.params {
				m[p] = app.Args[i]
			}
			for i, hv := range tpl.heaps {
				m[hv] = app.Args[len(tpl.params)+i]
			}
			inst = append(inst, Eq(app, Subst(tpl.body, m)))
		}
		out = append(out, inst...)
		work = inst
	}
	return out
}

// reachingDef finds, through debug references, the definition of a source variable that
// reaches the loop head of the invariant being evaluated: a phi at the head, otherwise the
// dominating definition that is latest in dominance order.
// onlyCarried: the single loop-carried source variable (phi at the loop head) of the loop whose invariant is being
// evaluated, not counting the loop's own index or counter.
func (env *SpecEnv) onlyCarried() (SVal, string, bool) {
	if env.loop == nil || env.fr == nil {
		return SVal{}, "", false
	}
	var skip = map[ssa.Value]bool{}
	for _, l := range env.fr.info.LoopOrd {
		if l.Head == env.loop.Head {
			if l.RangeIx != nil {
				skip[l.RangeIx] = true
			}
			if l.CountIx != nil {
				skip[l.CountIx] = true
			}
		}
	}
	var found *ssa.Phi
	for _, ins := range env.loop.Head.Instrs {
		phi, ok := ins.(*ssa.Phi)
		if !ok || skip[phi] || phi.Comment == "" {
			continue
		}
		if _, ok := env.fr.regs[phi]; !ok {
			continue
		}
		if found != nil {
			return SVal{}, "", false
		}
		found = phi
	}
	if found == nil {
		return SVal{}, "", false
	}
	return env.fromValue(env.fr.regs[found], found.Type()), found.Comment, true
}

func (env *SpecEnv) reachingDef(name string) (SVal, bool) {
	fr := env.fr
	if env.loop == nil {
		return SVal{}, false
	}
	head := env.loop.Head
	for _, ins := range head.Instrs {
		if phi, ok := ins.(*ssa.Phi); ok && phi.Comment == name {
			if v, ok := fr.regs[phi]; ok {
				return env.fromValue(v, phi.Type()), true
			}
		}
	}
	var best ssa.Value
	bestDepth, bestPos := -1, -1
	depth := func(b *ssa.BasicBlock) int {
		d := 0
		for x := b; x != nil; x = x.Idom() {
			d++
		}
		return d
	}
	consider := func(v ssa.Value) {
		var blk *ssa.BasicBlock
		pos := -1
		switch v := v.(type) {
		case *ssa.Parameter:
			if best == nil {
				best = v
			}
			return
		case ssa.Instruction:
			blk = v.Block()
			for i, x := range blk.Instrs {
				if x == v {
					pos = i
				}
			}
		default:
			return
		}
		if blk == nil || !(blk.Dominates(head)) || blk == head {
			return
		}
		if _, ok := fr.regs[v]; !ok {
			return
		}
		d := depth(blk)
		if d > bestDepth || (d == bestDepth && pos > bestPos) {
			best, bestDepth, bestPos = v, d, pos
		}
	}
	for _, b := range fr.fn.Blocks {
		for _, ins := range b.Instrs {
			if d, ok := ins.(*ssa.DebugRef); ok && !d.IsAddr {
				if id, ok := d.Expr.(*ast.Ident); ok && id.Name == name {
					consider(d.X)
				}
			}
		}
	}
	if best == nil {
		return SVal{}, false
	}
	return env.fromValue(env.x.get(fr, env.st, best), best.Type()), true
}
