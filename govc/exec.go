package main

// The symbolic executor: runs a go/ssa function block by block (reverse post-order,
// ite-merge at joins, loops cut at their head by invariants) and emits obligations.

import (
	"fmt"
	"go/constant"
	"go/token"
	"go/types"
	"sort"
	"strings"

	"golang.org/x/tools/go/ssa"
)

type Obligation struct {
	Name   string // <func>#<kind>[label]@site
	Func   string
	Kind   string
	Facts  []*Term
	PC     *Term
	Goal   *Term
	Props  []string
	Note   string
	Failed string // non-empty: tool-limit failure produced without solving
	Result *SolveResult
	replayOK bool
	Split  []*Term // conjuncts of Goal (solved separately only if the whole goal fails)
	label, site string
}

type freeBinding struct {
	ptr  Value
	elem types.Type
}

type unsupported struct{ msg string }

func unsup(f string, a ...any) { panic(unsupported{fmt.Sprintf(f, a...)}) }

type Frame struct {
	fn      *ssa.Function
	info    *FuncInfo
	regs    map[ssa.Value]Value
	parent  *Frame
	depth   int
	defers  []*deferRec
	con     *Contract // contract being verified (top frame only) or nil
	rets    []retRec
	nopanic bool
	entry   *State // state at entry (for old())
	params  []Value
	site    string // call-site label for inlined frames
	closure *Closure
	top     *Frame
	modRegions []modRegion
	groups  []*Term // sync.Groups created in this frame (must be joined at every return)
	groupPC []*Term // path condition at their creation
}

type retRec struct {
	st  *State
	val Value
	ord int
}

type Exec struct {
	w         *World
	specs     *SpecDB
	obls      []*Obligation
	noRetry   map[string]bool // obligations that get no second solver pass (known findings)
	facts     []*Term
	cur       *Contract // function under verification
	curKey    string
	dry       int // >0: dry run (loop write-set discovery); obligations and facts discarded
	notes     map[string]bool
	abstract  map[string]bool // abstracted calls (for evidence)
	assumed   map[string]bool // assumptions used
	inlined   map[string]bool
	cloEnv    map[*Term]*Closure
	fnIDs     map[*ssa.Function]int
	fnByID    []*ssa.Function
	callOrd   map[string]int
	ghostInit map[string]*Term
	nameCount map[string]int
	pendingRegions []modRegion
	freeOf    map[*Contract]map[string]freeBinding
	meaningDone map[*ssa.Function]bool
	bounds    map[string]*ssa.Function
	boundIDs  map[types.Object]int
	groupOf   map[*Term]*Term
	retryOrd  map[*ssa.Function]int
	iterOrdOf map[ssa.Instruction]int
	iterCount map[*ssa.Function]int
	cbOrdOf   map[ssa.Instruction]int
	cbCount   map[*ssa.Function]int
	cancelID  int
}

func newExec(w *World, specs *SpecDB) *Exec {
	return &Exec{w: w, specs: specs, notes: map[string]bool{}, abstract: map[string]bool{}, assumed: map[string]bool{}, inlined: map[string]bool{},
		cloEnv: map[*Term]*Closure{}, nameCount: map[string]int{}, freeOf: map[*Contract]map[string]freeBinding{}, meaningDone: map[*ssa.Function]bool{}, boundIDs: map[types.Object]int{}, groupOf: map[*Term]*Term{}, retryOrd: map[*ssa.Function]int{}, fnIDs: map[*ssa.Function]int{}, fnByID: []*ssa.Function{nil}}
}

func (x *Exec) fnID(fn *ssa.Function) int {
	if id, ok := x.fnIDs[fn]; ok {
		return id
	}
	// go/ssa creates a new bound-method wrapper at every method value expression; they are
	// all the same function value: identify them by the method object.
	if strings.HasSuffix(fn.Name(), "$bound") && fn.Object() != nil {
		if id, ok := x.boundIDs[fn.Object()]; ok {
			x.fnIDs[fn] = id
			return id
		}
		id := len(x.fnByID)
		x.boundIDs[fn.Object()] = id
		x.fnIDs[fn] = id
		x.fnByID = append(x.fnByID, fn)
		return id
	}
	id := len(x.fnByID)
	x.fnIDs[fn] = id
	x.fnByID = append(x.fnByID, fn)
	return id
}

func (x *Exec) assume(st *State, fact *Term) {
	if x.dry > 0 || fact == True {
		return
	}
	x.facts = append(x.facts, Implies(st.pc, fact))
}

// assumePC strengthens the path condition with q. Quantified conjuncts are named by a fresh
// Boolean (b, with the fact b => q) so that path conditions stay quantifier-free.
func (x *Exec) assumePC(st *State, q *Term) {
	for _, c := range conjuncts(q) {
		if c.hasQ && x.dry == 0 {
			b := Fresh("pl", "Bool")
			x.facts = append(x.facts, Implies(b, c))
			st.pc = And(st.pc, b)
		} else {
			st.pc = And(st.pc, c)
		}
	}
}

func (x *Exec) oblige(st *State, kind, label, site string, goal *Term, note string) {
	if x.dry > 0 {
		return
	}
	var split []*Term
	if cs := conjuncts(goal); len(cs) > 1 && (kind == "post" || kind == "inv" || kind == "edge" || strings.HasPrefix(kind, "pre(")) {
		// solved as one VC first; only if that fails the conjuncts are solved (and reported) one by one
		split = cs
	}
	name := fmt.Sprintf("%s#%s", x.curKey, kind)
	if label != "" {
		name += "[" + label + "]"
	}
	if site != "" {
		name += "@" + site
	}
	x.nameCount[name]++
	if n := x.nameCount[name]; n > 1 {
		name = fmt.Sprintf("%s~%d", name, n)
	}
	o := &Obligation{Name: name, Func: x.curKey, Kind: kind, Facts: x.facts[:len(x.facts):len(x.facts)], PC: st.pc, Goal: goal, Note: note, Split: split, label: label, site: site}
	if x.cur != nil {
		o.Props = x.cur.Props
	}
	x.obls = append(x.obls, o)
}

func (x *Exec) pos(ins ssa.Instruction) string {
	if ins == nil || ins.Pos() == token.NoPos {
		return ""
	}
	p := x.w.Fset.Position(ins.Pos())
	return fmt.Sprintf("%s:%d", shortFile(p.Filename), p.Line)
}

func framePrefix(fr *Frame) string {
	if fr.parent == nil {
		return ""
	}
	return relName(fr.fn) + ":"
}

func shortFile(f string) string {
	if i := strings.LastIndex(f, "/"); i >= 0 {
		return f[i+1:]
	}
	return f
}

// ---------------------------------------------------------------------------
// well-formedness assumptions on values read from memory / received from outside

func (x *Exec) wf(st *State, t *Term, typ types.Type) *Term {
	return wfBound(st.alloc, t, typ)
}

func wfBound(alloc *Term, t *Term, typ types.Type) *Term {
	st := &State{alloc: alloc}
	var x *Exec
	typ = types.Unalias(typ)
	if isTimeTime(typ) {
		return Ge(t, Int(0))
	}
	switch u := typ.Underlying().(type) {
	case *types.Pointer:
		base := And(Ge(t, Int(0)), Lt(t, st.alloc))
		if n, ok := types.Unalias(u.Elem()).(*types.Named); ok && n.Obj().Pkg() != nil && isRepoPkg(n.Obj().Pkg().Path()) {
			if su, ok := n.Underlying().(*types.Struct); ok && su.NumFields() > 0 && n.TypeArgs().Len() == 0 {
				// distinct live objects of different types never share an address
				return And(base, Implies(Not(Eq(t, Int(0))), Eq(Select(rtypeArr(), t), typeTag(u))))
			}
		}
		return base
	case *types.Map, *types.Chan:
		return And(Ge(t, Int(0)), Lt(t, st.alloc))
	case *types.Slice:
		return And(Ge(sArr(t), Int(0)), Lt(sArr(t), st.alloc), Ge(sOff(t), Int(0)), Ge(sLen(t), Int(0)), Le(sLen(t), sCap(t)),
			Implies(Eq(sArr(t), Int(0)), And(Eq(sCap(t), Int(0)), Eq(sOff(t), Int(0)))))
	case *types.Interface, *types.TypeParam:
		return And(Ge(Acc(t, 0), Int(0)), Implies(Eq(Acc(t, 0), Int(0)), Eq(Acc(t, 1), Int(0))), Ge(Acc(t, 1), Int(0)), Lt(Acc(t, 1), st.alloc))
	case *types.Signature:
		return And(Ge(Acc(t, 0), Int(0)), Implies(Eq(Acc(t, 0), Int(0)), Eq(Acc(t, 1), Int(0))))
	case *types.Basic:
		if u.Info()&types.IsUnsigned != 0 {
			return Ge(t, Int(0))
		}
		return True
	case *types.Struct:
		var cs []*Term
		for i := 0; i < u.NumFields(); i++ {
			cs = append(cs, x.wf(st, Acc(t, i), u.Field(i).Type()))
		}
		return And(cs...)
	}
	return True
}

func rtypeArr() *Term { return Const("rtype", arraySort("Int", "Int")) }

func (x *Exec) freshVal(st *State, name string, typ types.Type) Value {
	if tup, ok := typ.(*types.Tuple); ok {
		var vs []Value
		for i := 0; i < tup.Len(); i++ {
			vs = append(vs, x.freshVal(st, fmt.Sprintf("%s.%d", name, i), tup.At(i).Type()))
		}
		return Value{Tup: vs}
	}
	t := Fresh(name, sortOf(typ))
	x.assume(st, x.wf(st, t, typ))
	return Value{T: t}
}

// ---------------------------------------------------------------------------

func (x *Exec) get(fr *Frame, st *State, v ssa.Value) Value {
	switch v := v.(type) {
	case *ssa.Const:
		return Value{T: x.constTerm(v)}
	case *ssa.Function:
		ft := Mk(sortFn, Int(int64(x.fnID(v))), Int(0))
		if len(x.specs.fnTypes) > 0 && len(v.Blocks) > 0 && x.dry == 0 && !x.meaningDone[v] {
			x.meaningDone[v] = true
			x.closureMeaning(st, fr, v, &Closure{Fn: v}, ft)
		}
		return Value{T: ft, Clo: &Closure{Fn: v}}
	case *ssa.Global:
		return Value{T: x.globalRef(v)}
	case *ssa.Builtin:
		unsup("builtin %s used as value", v.Name())
	}
	if r, ok := fr.regs[v]; ok {
		return r
	}
	unsup("use of undefined value %s (%T) in %s", v.Name(), v, fr.fn.Name())
	return Value{}
}

func (x *Exec) globalRef(g *ssa.Global) *Term {
	name := "glob_" + smtName(g.Pkg.Pkg.Name()+"_"+g.Name())
	t := Const(name, "Int")
	return t
}

func (x *Exec) constTerm(c *ssa.Const) *Term {
	t := c.Type()
	if c.Value == nil {
		return zeroTerm(t)
	}
	switch c.Value.Kind() {
	case constant.Bool:
		return BoolT(constant.BoolVal(c.Value))
	case constant.String:
		return strLit(constant.StringVal(c.Value))
	case constant.Int:
		if sortOf(t) == "Real" {
			return intern(&Term{Op: c.Value.ExactString() + ".0", Sort: "Real", kind: kLit})
		}
		if n, ok := constant.Int64Val(c.Value); ok {
			return Int(n)
		}
		u, _ := constant.Uint64Val(c.Value)
		return intern(&Term{Op: fmt.Sprint(u), Sort: "Int", kind: kLit})
	case constant.Float:
		return Fresh("float", "Real")
	}
	unsup("constant %s", c)
	return nil
}

// runFunction symbolically executes fn from state st with the given arguments and
// returns the merged return state and value (nil state if no path returns).
func (x *Exec) runFunction(st *State, fn *ssa.Function, args []Value, clo *Closure, parent *Frame, con *Contract, site string) (*State, Value, *Frame) {
	if len(fn.Blocks) == 0 {
		unsup("function %s has no body", fn)
	}
	fr := &Frame{fn: fn, info: analyzeFunc(fn), regs: map[ssa.Value]Value{}, parent: parent, con: con, site: site, closure: clo}
	if parent != nil {
		fr.depth = parent.depth + 1
		fr.nopanic = parent.nopanic
		fr.top = parent.top
	} else {
		fr.top = fr
	}
	if con != nil && parent == nil {
		fr.nopanic = con.NoPanic
		fr.modRegions = x.pendingRegions
	}
	if fr.depth > 12 {
		unsup("inline depth exceeded at %s", fn)
	}
	if len(args) != len(fn.Params) {
		unsup("arity mismatch calling %s: %d args, %d params", fn, len(args), len(fn.Params))
	}
	for i, p := range fn.Params {
		fr.regs[p] = args[i]
	}
	fr.params = args
	for i, fv := range fn.FreeVars {
		if clo == nil || i >= len(clo.Binds) {
			unsup("missing binding for free var %s of %s", fv.Name(), fn)
		}
		fr.regs[fv] = clo.Binds[i]
	}
	fr.entry = st.clone()
	x.execBlocks(fr, st)
	if len(fr.rets) == 0 {
		return nil, Value{}, fr
	}
	return x.mergeReturns(fr)
}

func (x *Exec) mergeReturns(fr *Frame) (*State, Value, *Frame) {
	var sts []*State
	for _, r := range fr.rets {
		sts = append(sts, r.st)
	}
	out := mergeStates(sts)
	val := fr.rets[len(fr.rets)-1].val
	for i := len(fr.rets) - 2; i >= 0; i-- {
		val = x.iteValue(fr.rets[i].st.pc, fr.rets[i].val, val)
	}
	return out, val, fr
}

// opaqueIptr: a non-nil pointer value standing for the interior pointer lv (distinct from every allocated reference).
func opaqueIptr(lv *LValue) *Term {
	args := []*Term{lv.Ref}
	if lv.Idx != nil {
		args = append(args, lv.Idx)
	}
	u := UF("iptr_"+sortSuffix(lv.Key)+fmt.Sprint(len(args)), "Int", args...)
	return Sub(Int(-1), Ite(Ge(u, Int(0)), u, Int(0)))
}

func mentionsIptr(t *Term) bool {
	seen := map[*Term]bool{}
	var rec func(t *Term) bool
	rec = func(t *Term) bool {
		if t == nil || seen[t] {
			return false
		}
		seen[t] = true
		if strings.HasPrefix(t.Op, "iptr_") {
			return true
		}
		for _, a := range t.Args {
			if rec(a) {
				return true
			}
		}
		return false
	}
	return rec(t)
}

func (x *Exec) iteValue(c *Term, a, b Value) Value {
	if len(a.Tup) > 0 || len(b.Tup) > 0 {
		if len(a.Tup) != len(b.Tup) {
			unsup("merge of tuples of different arity")
		}
		out := Value{}
		for i := range a.Tup {
			out.Tup = append(out.Tup, x.iteValue(c, a.Tup[i], b.Tup[i]))
		}
		return out
	}
	if a.LV != nil || b.LV != nil {
		if a.LV != nil && b.LV != nil && a.LV.Key == b.LV.Key && a.LV.Idx == nil && b.LV.Idx == nil && len(a.LV.Path) == 0 && len(b.LV.Path) == 0 {
			lv := *a.LV
			lv.Ref = Ite(c, a.LV.Ref, b.LV.Ref)
			return Value{LV: &lv}
		}
		if a.LV != nil && b.LV != nil && a.LV.Key == b.LV.Key && a.LV.Idx != nil && b.LV.Idx != nil && fmt.Sprint(a.LV.Path) == fmt.Sprint(b.LV.Path) {
			lv := *a.LV
			lv.Ref = Ite(c, a.LV.Ref, b.LV.Ref)
			lv.Idx = Ite(c, a.LV.Idx, b.LV.Idx)
			return Value{LV: &lv}
		}
		// an interior pointer (&x.f) merged with a plain pointer value (typically nil): the result is an opaque pointer -
		// it can be compared with nil, stored and passed on, but not dereferenced (derefLV refuses)
		if a.LV != nil && b.LV == nil && b.T != nil {
			return Value{T: Ite(c, opaqueIptr(a.LV), b.T)}
		}
		if b.LV != nil && a.LV == nil && a.T != nil {
			return Value{T: Ite(c, a.T, opaqueIptr(b.LV))}
		}
		unsup("merge of interior pointers")
	}
	if a.T == nil || b.T == nil {
		if a.T == nil && b.T == nil {
			return Value{}
		}
		unsup("merge of non-first-class values")
	}
	if a.Local != b.Local {
		unsup("merge of pointers to different local variables")
	}
	out := Value{T: Ite(c, a.T, b.T), Local: a.Local}
	if a.Clo != nil && b.Clo != nil && a.Clo == b.Clo {
		out.Clo = a.Clo
	}
	if a.T == b.T {
		out.Clo = a.Clo
	}
	return out
}

type edgeState struct {
	from *ssa.BasicBlock
	st   *State
}

func (x *Exec) execBlocks(fr *Frame, st0 *State) {
	in := map[*ssa.BasicBlock][]edgeState{}
	in[fr.fn.Blocks[0]] = []edgeState{{nil, st0}}
	for _, b := range fr.info.Order {
		edges := in[b]
		if len(edges) == 0 {
			continue
		}
		delete(in, b)
		var st *State
		loop := fr.info.Loops[b]
		if loop != nil {
			st = x.enterLoop(fr, b, loop, edges)
			if st == nil {
				continue
			}
		} else {
			var sts []*State
			for _, e := range edges {
				sts = append(sts, e.st)
			}
			st = mergeStates(sts)
			if len(sts) > 1 {
				st = st.clone()
			}
			// phis
			for _, ins := range b.Instrs {
				phi, ok := ins.(*ssa.Phi)
				if !ok {
					break
				}
				fr.regs[phi] = x.phiValue(fr, b, phi, edges)
			}
		}
		if st.pc == False {
			continue
		}
		x.execInstrs(fr, b, st, in)
	}
}

func (x *Exec) phiValue(fr *Frame, b *ssa.BasicBlock, phi *ssa.Phi, edges []edgeState) Value {
	var val Value
	first := true
	for i := len(edges) - 1; i >= 0; i-- {
		e := edges[i]
		idx := -1
		for j, p := range b.Preds {
			if p == e.from {
				idx = j
				break
			}
		}
		if idx < 0 {
			unsup("phi edge not found")
		}
		v := x.get(fr, e.st, phi.Edges[idx])
		if first {
			val = v
			first = false
		} else {
			val = x.iteValue(e.st.pc, v, val)
		}
	}
	return val
}

// enterLoop handles a loop head: invariant on entry, havoc, assume invariant.
func (x *Exec) enterLoop(fr *Frame, b *ssa.BasicBlock, loop *LoopInfo, edges []edgeState) *State {
	var fwd []edgeState
	for _, e := range edges {
		if !fr.info.BackEdg[[2]int{e.from.Index, b.Index}] {
			fwd = append(fwd, e)
		}
	}
	if len(fwd) == 0 {
		return nil
	}
	var sts []*State
	for _, e := range fwd {
		sts = append(sts, e.st)
	}
	st := mergeStates(sts).clone()
	if st.pc == False {
		return nil
	}
	var phis []*ssa.Phi
	for _, ins := range b.Instrs {
		if phi, ok := ins.(*ssa.Phi); ok {
			phis = append(phis, phi)
		} else {
			break
		}
	}
	// entry values of the phis
	for _, phi := range phis {
		fr.regs[phi] = x.phiValue(fr, b, phi, fwd)
	}
	invs := x.loopInvs(fr, loop)
	if invs == nil && x.dry == 0 {
		if fr.top.con != nil {
			x.oblige(st, "inv", fmt.Sprintf("%d", loop.Ordinal), "missing", False, fmt.Sprintf("no invariant for loop %d of %s", loop.Ordinal, funcKey(fr.fn)))
		}
	}
	loopSnap := st.clone()
	for i, inv := range invs {
		g := x.evalInv(fr, st, loopSnap, loop, inv)
		x.oblige(st, "inv", invLabel(fr, loop, inv, i), "init", g, "")
	}
	// discover the write set by dry runs of the body (iterated until no new heap array is written)
	wset := x.loopWrites(fr, b, loop, st, phis)
	writes := wset.keys
	fr.loopWrites(loop, writes)
	for _, k := range sortedKeys(writes) {
		if g := x.frameInv(fr, st, k); g != nil {
			x.oblige(st, "inv", fmt.Sprintf("%d.frame(%s)", loop.Ordinal, k), "init", g, "implicit loop frame: locations outside the modifies clause are unchanged")
		}
	}
	// havoc
	for _, phi := range phis {
		fr.regs[phi] = x.havocValue(st, fr.regs[phi], "loop_"+phi.Name(), phi.Type())
	}
	ws := sortedKeys(writes)
	x.havocWriteSet(fr, st, wset, "loop")
	// assume the invariants for an arbitrary iteration
	var assumed []*Term
	for _, inv := range invs {
		assumed = append(assumed, x.evalInv(fr, st, loopSnap, loop, inv))
	}
	// frame of the enclosing function's contract is not re-assumed here; invariants carry what is needed.
	if loop.RangeIx != nil {
		// implicit: the hidden range index starts at -1 and only grows
		assumed = append(assumed, Ge(fr.regs[loop.RangeIx].T, Int(-1)))
	}
	for _, k := range ws {
		if g := x.frameInv(fr, st, k); g != nil {
			assumed = append(assumed, g)
		}
	}
	x.assumePC(st, And(assumed...))
	fr.loopSnap(loop, loopSnap)
	return st
}

var loopSnaps = map[*Frame]map[*LoopInfo]*State{}

func (fr *Frame) loopSnap(l *LoopInfo, st *State) {
	m := loopSnaps[fr]
	if m == nil {
		m = map[*LoopInfo]*State{}
		loopSnaps[fr] = m
	}
	m[l] = st
}

func invLabel(fr *Frame, loop *LoopInfo, c Clause, i int) string {
	if c.Label != "" {
		return fmt.Sprintf("%d.%s", loop.Ordinal, c.Label)
	}
	return fmt.Sprintf("%d.%d", loop.Ordinal, i+1)
}

func (x *Exec) havocValue(st *State, old Value, name string, typ types.Type) Value {
	if old.LV != nil {
		unsup("loop-carried interior pointer %s", name)
	}
	if len(old.Tup) > 0 {
		unsup("loop-carried tuple %s", name)
	}
	return x.freshVal(st, name, typ)
}

// writeSet: what a loop body (or a closure run repeatedly by a library rule) may write.
type writeSet struct {
	keys  map[string]bool
	cells map[string][]*Term // heap arrays written only at these iteration-independent references
}

// stableRef: a reference term that denotes the same location in every iteration: built without memory
// reads, only from symbols that existed before the dry run started.
func stableRef(t *Term, startID int) bool {
	ok := true
	seen := map[*Term]bool{}
	var rec func(t *Term)
	rec = func(t *Term) {
		if !ok || seen[t] {
			return
		}
		seen[t] = true
		switch t.kind {
		case kConst:
			if t.id >= startID || strings.HasPrefix(t.Op, "dry_") {
				ok = false
			}
		case kBoundVar, kQuant:
			ok = false
		case kApp:
			if t.Op == "select" || strings.HasPrefix(t.Sort, "(Array") {
				ok = false
				return
			}
			for _, a := range t.Args {
				rec(a)
			}
		}
	}
	rec(t)
	return ok
}

// discoverWrites runs body in dry mode from st until the set of written heap arrays / ghosts is stable: every
// round starts with everything found so far havocked, so that writes guarded by state the body itself changes
// (a captured flag, a queue head) are found too. Heap arrays that were only written through single-location stores
// at iteration-independent references are reported as cells and can be havocked precisely.
func (x *Exec) discoverWrites(st *State, body func(dst *State)) *writeSet {
	x.dry++
	defer func() { x.dry-- }()
	known := map[string]bool{}
	var last *State
	startID := termCount + 1
	for round := 0; round < 8; round++ {
		dst := st.clone()
		dst.writes = map[string]bool{}
		dst.wlog = newWriteLog()
		dst.pc = True
		dst.alloc = Fresh("dry_alloc", "Int")
		for _, k := range sortedKeys(known) {
			switch {
			case strings.HasPrefix(k, "ghost:"):
				g := strings.TrimPrefix(k, "ghost:")
				dst.ghost[g] = Fresh("dry_G_"+g, ghostSorts[g])
			case k == "alloc":
			default:
				dst.heap[k] = Fresh("dry_"+k, heapSorts[k])
			}
		}
		body(dst)
		last = dst
		grew := false
		for k := range dst.writes {
			if !known[k] {
				known[k] = true
				grew = true
			}
		}
		if !grew {
			break
		}
	}
	ws := &writeSet{keys: known, cells: map[string][]*Term{}}
	// any allocation on any path shows up as a changed alloc term in some state; be conservative:
	ws.keys["alloc"] = true
	for k := range known {
		if strings.HasPrefix(k, "ghost:") || k == "alloc" || strings.HasPrefix(k, "EH_") || last.wlog.any[k] {
			continue
		}
		refs := last.wlog.refs[k]
		if len(refs) == 0 || len(refs) > 12 {
			continue
		}
		ok := true
		seen := map[*Term]bool{}
		var uniq []*Term
		for _, r := range refs {
			if !stableRef(r, startID) {
				ok = false
				break
			}
			if !seen[r] {
				seen[r] = true
				uniq = append(uniq, r)
			}
		}
		if ok {
			ws.cells[k] = uniq
		}
	}
	return ws
}

// havocWriteSet forgets everything the body may have changed.
func (x *Exec) havocWriteSet(fr *Frame, st *State, ws *writeSet, why string) {
	preAlloc := st.alloc
	if ws.keys["alloc"] {
		st.alloc = Fresh("alloc_"+why, "Int")
		x.assume(st, Ge(st.alloc, preAlloc))
	}
	for _, k := range sortedKeys(ws.keys) {
		switch {
		case strings.HasPrefix(k, "ghost:"):
			g := strings.TrimPrefix(k, "ghost:")
			ng := Fresh("G_"+g+"_"+why, ghostSorts[g])
			if freshOnlyGhost[g] || (freshUnlessListed(g) && !ghostListed(fr.top, g)) {
				// sound only for identities created before the function under verification was entered:
				// the function itself may update the groups it created before the loop (invariants say how)
				q := BoundVar("q_fg", "Int")
				x.assume(st, Forall([]*Term{q}, [][]*Term{{Select(ng, q)}}, Implies(Lt(q, fr.top.entry.alloc), Eq(Select(ng, q), Select(fr.top.entry.G(g), q)))))
			}
			st.ghost[g] = ng
		case k == "alloc":
		default:
			if refs := ws.cells[k]; refs != nil {
				h := st.H(k, heapSorts[k])
				for _, r := range refs {
					v := Fresh("hv_"+k, elemSortOf(heapSorts[k]))
					if vt := heapValType[k]; vt != nil && sortOf(vt) == v.Sort {
						x.assume(st, wfBound(st.alloc, v, vt))
					}
					h = Store(h, r, v)
				}
				st.heap[k] = h
			} else {
				st.heap[k] = freshHeap(st, k, why)
			}
		}
	}
}

// loopWrites reports which heap keys / ghosts the loop body may write.
func (x *Exec) loopWrites(fr *Frame, head *ssa.BasicBlock, loop *LoopInfo, st *State, phis []*ssa.Phi) *writeSet {
	savedRegs := map[ssa.Value]Value{}
	for k, v := range fr.regs {
		savedRegs[k] = v
	}
	savedRets := fr.rets
	savedDefers := fr.defers
	ws := x.discoverWrites(st, func(dst *State) {
		for k := range fr.regs {
			delete(fr.regs, k)
		}
		for k, v := range savedRegs {
			fr.regs[k] = v
		}
		for _, phi := range phis {
			fr.regs[phi] = Value{T: Fresh("dry_"+phi.Name(), sortOf(phi.Type()))}
		}
		in := map[*ssa.BasicBlock][]edgeState{}
		started := false
		for _, b := range fr.info.Order {
			if !loop.Blocks[b] {
				continue
			}
			var bst *State
			if b == head {
				bst = dst
				started = true
			} else {
				if !started {
					continue
				}
				edges := in[b]
				if len(edges) == 0 {
					continue
				}
				if inner := fr.info.Loops[b]; inner != nil {
					bst = x.enterLoop(fr, b, inner, edges)
					if bst == nil {
						continue
					}
				} else {
					var sts []*State
					for _, e := range edges {
						sts = append(sts, e.st)
					}
					bst = mergeStates(sts).clone()
					for _, ins := range b.Instrs {
						phi, ok := ins.(*ssa.Phi)
						if !ok {
							break
						}
						fr.regs[phi] = x.phiValue(fr, b, phi, edges)
					}
				}
			}
			x.execInstrsFiltered(fr, b, bst, in, loop)
		}
	})
	fr.regs = savedRegs
	fr.rets = savedRets
	fr.defers = savedDefers
	return ws
}

func (x *Exec) loopInvs(fr *Frame, loop *LoopInfo) []Clause {
	con := x.contractForFrame(fr)
	if con == nil {
		return nil
	}
	return con.Invs[loop.Ordinal]
}

// contractForFrame: invariants for loops of fr.fn come from the contract of that
// function (also when it is being inlined), or - for function literals - from the
// enclosing declared function's contract with key "<lit name>:<n>" (handled by SpecDB).
func (x *Exec) contractForFrame(fr *Frame) *Contract {
	if fr.con != nil {
		return fr.con
	}
	return x.specs.contractFor(fr.fn)
}

func (x *Exec) execInstrs(fr *Frame, b *ssa.BasicBlock, st *State, in map[*ssa.BasicBlock][]edgeState) {
	x.execInstrsFiltered(fr, b, st, in, nil)
}

// execInstrsFiltered executes the non-phi instructions of b; when within != nil only
// edges staying inside that loop are propagated (dry runs).
func (x *Exec) execInstrsFiltered(fr *Frame, b *ssa.BasicBlock, st *State, in map[*ssa.BasicBlock][]edgeState, within *LoopInfo) {
	for _, ins := range b.Instrs {
		if _, ok := ins.(*ssa.Phi); ok {
			continue
		}
		if st.pc == False {
			return
		}
		switch ins := ins.(type) {
		case *ssa.If:
			c := x.get(fr, st, ins.Cond).T
			t := st.clone()
			t.pc = And(st.pc, c)
			f := st
			f.pc = And(st.pc, Not(c))
			x.edge(fr, b, b.Succs[0], t, in, within)
			x.edge(fr, b, b.Succs[1], f, in, within)
			return
		case *ssa.Jump:
			x.edge(fr, b, b.Succs[0], st, in, within)
			return
		case *ssa.Return:
			if within != nil {
				return
			}
			x.doReturn(fr, st, ins)
			return
		case *ssa.Panic:
			if fr.nopanic {
				x.oblige(st, "safe", "panic", x.site(fr, ins), False, "explicit panic reachable at "+x.pos(ins))
			}
			return
		default:
			x.step(fr, st, ins)
		}
	}
}

func (x *Exec) edge(fr *Frame, from, to *ssa.BasicBlock, st *State, in map[*ssa.BasicBlock][]edgeState, within *LoopInfo) {
	if st.pc == False {
		return
	}
	if fr.info.BackEdg[[2]int{from.Index, to.Index}] {
		if x.dry > 0 && within != nil {
			return
		}
		loop := fr.info.Loops[to]
		x.checkBackEdge(fr, from, to, loop, st)
		return
	}
	if within != nil && !within.Blocks[to] {
		return
	}
	in[to] = append(in[to], edgeState{from, st})
}

func (x *Exec) checkBackEdge(fr *Frame, from, head *ssa.BasicBlock, loop *LoopInfo, st *State) {
	if x.dry > 0 {
		return
	}
	invs := x.loopInvs(fr, loop)
	// evaluate the invariant with the phis bound to their back-edge values
	saved := map[*ssa.Phi]Value{}
	idx := -1
	for j, p := range head.Preds {
		if p == from {
			idx = j
		}
	}
	var phis []*ssa.Phi
	for _, ins := range head.Instrs {
		if phi, ok := ins.(*ssa.Phi); ok {
			phis = append(phis, phi)
		} else {
			break
		}
	}
	newVals := map[*ssa.Phi]Value{}
	for _, phi := range phis {
		newVals[phi] = x.get(fr, st, phi.Edges[idx])
	}
	for _, phi := range phis {
		saved[phi] = fr.regs[phi]
		fr.regs[phi] = newVals[phi]
	}
	snap := loopSnaps[fr][loop]
	for i, inv := range invs {
		g := x.evalInv(fr, st, snap, loop, inv)
		x.oblige(st, "inv", invLabel(fr, loop, inv, i), "step", g, "")
	}
	for _, k := range sortedKeys(loopWriteSets[fr][loop]) {
		if g := x.frameInv(fr, st, k); g != nil {
			x.oblige(st, "inv", fmt.Sprintf("%d.frame(%s)", loop.Ordinal, k), "step", g, "implicit loop frame: locations outside the modifies clause are unchanged")
		}
	}
	for _, phi := range phis {
		fr.regs[phi] = saved[phi]
	}
}

func (x *Exec) doReturn(fr *Frame, st *State, ret *ssa.Return) {
	var val Value
	switch len(ret.Results) {
	case 0:
	case 1:
		val = x.get(fr, st, ret.Results[0])
	default:
		for _, r := range ret.Results {
			val.Tup = append(val.Tup, x.get(fr, st, r))
		}
	}
	for i, g := range fr.groups {
		x.oblige(st, "join", fmt.Sprintf("group%d", i+1), fmt.Sprintf("%sret%d", framePrefix(fr), fr.info.Returns[ret]), Implies(fr.groupPC[i], Eq(gSel(st, "pending", g), Int(0))),
			"every function started on a sync.Group created here has been waited for when the function returns")
	}
	fr.rets = append(fr.rets, retRec{st: st, val: val, ord: fr.info.Returns[ret]})
}

// ---------------------------------------------------------------------------
// straight-line instructions

func (x *Exec) nilCheck(fr *Frame, st *State, ref *Term, ins ssa.Instruction, what string) {
	c := Not(Eq(ref, Int(0)))
	if fr.nopanic {
		x.oblige(st, "safe", "nil", x.site(fr, ins), c, what+" at "+x.pos(ins))
	}
	st.pc = And(st.pc, c)
}

func (x *Exec) boundsCheck(fr *Frame, st *State, idx, n *Term, ins ssa.Instruction) {
	c := And(Ge(idx, Int(0)), Lt(idx, n))
	if fr.nopanic {
		x.oblige(st, "safe", "index", x.site(fr, ins), c, "index in range at "+x.pos(ins))
	}
	st.pc = And(st.pc, c)
}

func (x *Exec) step(fr *Frame, st *State, ins ssa.Instruction) {
	switch ins := ins.(type) {
	case *ssa.DebugRef:
	case *ssa.Alloc:
		et := ins.Type().Underlying().(*types.Pointer).Elem()
		local := ""
		if _, isArr := et.Underlying().(*types.Array); !ins.Heap && (!isArr || isUUID(et)) {
			// a non-escaping local: only this frame can name it, so it gets private heap arrays
			local = "L_" + smtName(funcKey(fr.fn)) + "_" + ins.Name()
		}
		fr.regs[ins] = x.doAlloc(st, et, local)
	case *ssa.FieldAddr:
		p := x.get(fr, st, ins.X)
		stT := ins.X.Type().Underlying().(*types.Pointer).Elem()
		if p.LV == nil {
			x.nilCheck(fr, st, p.T, ins, "field address of nil pointer")
		}
		fr.regs[ins] = Value{LV: x.fieldLV(p, stT, ins.Field)}
	case *ssa.Field:
		v := x.get(fr, st, ins.X)
		fr.regs[ins] = Value{T: Acc(v.T, ins.Field)}
	case *ssa.IndexAddr:
		fr.regs[ins] = x.doIndexAddr(fr, st, ins)
	case *ssa.Index:
		v := x.get(fr, st, ins.X)
		i := x.get(fr, st, ins.Index).T
		switch u := ins.X.Type().Underlying().(type) {
		case *types.Array:
			x.boundsCheck(fr, st, i, Int(u.Len()), ins)
			fr.regs[ins] = Value{T: Select(v.T, i)}
		default:
			// string indexing
			fr.regs[ins] = Value{T: UF("str.at", "Int", v.T, i)}
		}
	case *ssa.UnOp:
		fr.regs[ins] = x.doUnOp(fr, st, ins)
	case *ssa.BinOp:
		a := x.get(fr, st, ins.X)
		b := x.get(fr, st, ins.Y)
		fr.regs[ins] = Value{T: x.binop(ins.Op, a.T, b.T, ins.X.Type())}
	case *ssa.Store:
		p := x.get(fr, st, ins.Addr)
		v := x.get(fr, st, ins.Val)
		elemT := ins.Addr.Type().Underlying().(*types.Pointer).Elem()
		if p.LV == nil {
			x.nilCheck(fr, st, p.T, ins, "store through nil pointer")
		}
		x.storePtr(st, p, elemT, x.firstClass(v, ins.Val.Type()))
	case *ssa.Call:
		fr.regs[ins] = x.doCall(fr, st, ins, &ins.Call)
	case *ssa.MakeInterface:
		v := x.get(fr, st, ins.X)
		fr.regs[ins] = Value{T: x.makeIface(st, v, ins.X.Type())}
	case *ssa.TypeAssert:
		fr.regs[ins] = x.doTypeAssert(fr, st, ins)
	case *ssa.Extract:
		t := x.get(fr, st, ins.Tuple)
		if ins.Index >= len(t.Tup) {
			unsup("extract %d from %d-tuple", ins.Index, len(t.Tup))
		}
		fr.regs[ins] = t.Tup[ins.Index]
	case *ssa.ChangeType:
		fr.regs[ins] = x.get(fr, st, ins.X)
	case *ssa.ChangeInterface:
		fr.regs[ins] = x.get(fr, st, ins.X)
	case *ssa.Convert:
		fr.regs[ins] = x.doConvert(fr, st, ins)
	case *ssa.MakeClosure:
		fn := ins.Fn.(*ssa.Function)
		clo := &Closure{Fn: fn}
		for _, b := range ins.Bindings {
			clo.Binds = append(clo.Binds, x.get(fr, st, b))
		}
		var env *Term
		if len(clo.Binds) == 1 && clo.Binds[0].T != nil && strings.HasSuffix(fn.Name(), "$bound") {
			// a method value: the environment is the receiver itself (boxed if it is not a reference)
			env = x.boundEnv(st, clo.Binds[0].T, fn.FreeVars[0].Type())
		} else {
			env = Fresh("env_"+fn.Name(), "Int")
			x.cloEnv[env] = clo
		}
		ft := Mk(sortFn, Int(int64(x.fnID(fn))), env)
		fr.regs[ins] = Value{T: ft, Clo: clo}
		if len(x.specs.fnTypes) > 0 {
			x.closureMeaning(st, fr, fn, clo, ft)
		}
	case *ssa.MakeSlice:
		n := x.get(fr, st, ins.Len).T
		c := x.get(fr, st, ins.Cap).T
		et := ins.Type().Underlying().(*types.Slice).Elem()
		arr := x.newRef(st)
		key, hs := elemHeapKey(et)
		h := st.H(key, hs)
		st.setH(key, Store(h, arr, ConstArray(arraySort("Int", sortOf(et)), zeroTerm(et))))
		fr.regs[ins] = Value{T: Mk(sortSlice, arr, Int(0), n, c)}
	case *ssa.MakeMap:
		fr.regs[ins] = x.doMakeMap(fr, st, ins)
	case *ssa.MakeChan:
		fr.regs[ins] = x.doMakeChan(fr, st, ins)
	case *ssa.Slice:
		fr.regs[ins] = x.doSlice(fr, st, ins)
	case *ssa.Lookup:
		fr.regs[ins] = x.doLookup(fr, st, ins)
	case *ssa.MapUpdate:
		x.doMapUpdate(fr, st, ins)
	case *ssa.Range:
		fr.regs[ins] = Value{T: Fresh("rangeiter", "Int")}
	case *ssa.Next:
		fr.regs[ins] = x.freshVal(st, "next", ins.Type())
	case *ssa.Defer:
		x.doDefer(fr, st, ins)
	case *ssa.RunDefers:
		x.runDefers(fr, st)
	case *ssa.Go:
		x.doGo(fr, st, ins)
	case *ssa.Send:
		x.doSend(fr, st, ins)
	case *ssa.Select:
		fr.regs[ins] = x.doSelect(fr, st, ins)
	default:
		unsup("instruction %T (%s) in %s", ins, ins, fr.fn)
	}
}

// firstClass returns the SMT term of v, failing if it has none.
func (x *Exec) firstClass(v Value, typ types.Type) *Term {
	if v.Local != "" {
		unsup("address of non-escaping local %s escapes", v.Local)
	}
	if v.T != nil {
		return v.T
	}
	if v.LV != nil {
		unsup("interior pointer of type %s escapes (stored or passed to non-inlined code)", typ)
	}
	unsup("value of type %s is not first-class", typ)
	return nil
}

func (x *Exec) doAlloc(st *State, elemT types.Type, local string) Value {
	r := x.newRef(st)
	if isStruct(elemT) {
		su := elemT.Underlying().(*types.Struct)
		for i := 0; i < su.NumFields(); i++ {
			x.writeLV(st, x.fieldLV(Value{T: r, Local: local}, elemT, i), zeroTerm(su.Field(i).Type()))
			if n, ok := types.Unalias(su.Field(i).Type()).(*types.Named); ok && n.Obj().Name() == "ShardedMap" && n.TypeArgs().Len() == 2 {
				// the zero ShardedMap is empty
				mt, id := x.shardedMap(st, Value{LV: x.fieldLV(Value{T: r, Local: local}, elemT, i)}, n)
				_, _, pk, ps := mapHeapKeys(mt)
				hp := st.H(pk, ps)
				st.setCell(pk, Store(hp, id, ConstArray(arraySort(sortOf(mt.Key()), "Bool"), False)), id)
			}
		}
		if f := wfBound(Add(r, Int(1)), r, types.NewPointer(elemT)); f != True {
			x.assume(st, f)
		}
		return Value{T: r, Local: local}
	}
	lv := x.derefLV(Value{T: r, Local: local}, elemT)
	if at, ok := elemT.Underlying().(*types.Array); ok && !isUUID(elemT) {
		h := st.H(lv.Key, lv.Sort)
		st.setH(lv.Key, Store(h, r, ConstArray(arraySort("Int", sortOf(at.Elem())), zeroTerm(at.Elem()))))
		return Value{T: r}
	}
	x.writeLV(st, lv, zeroTerm(elemT))
	return Value{T: r, Local: local}
}

func (x *Exec) doIndexAddr(fr *Frame, st *State, ins *ssa.IndexAddr) Value {
	base := x.get(fr, st, ins.X)
	i := x.get(fr, st, ins.Index).T
	switch u := ins.X.Type().Underlying().(type) {
	case *types.Slice:
		x.boundsCheck(fr, st, i, sLen(base.T), ins)
		return Value{LV: x.elemLV(st, base.T, i, u.Elem())}
	case *types.Pointer:
		at := u.Elem().Underlying().(*types.Array)
		x.boundsCheck(fr, st, i, Int(at.Len()), ins)
		if base.LV != nil {
			unsup("index into array inside struct")
		}
		x.nilCheck(fr, st, base.T, ins, "index of nil array pointer")
		key, sort := elemHeapKey(at.Elem())
		heapSorts[key] = sort
		return Value{LV: &LValue{Key: key, Sort: sort, Ref: base.T, Idx: i, Typ: at.Elem()}}
	}
	unsup("IndexAddr on %s", ins.X.Type())
	return Value{}
}

func (x *Exec) doSlice(fr *Frame, st *State, ins *ssa.Slice) Value {
	base := x.get(fr, st, ins.X)
	var lo, hi, mx *Term
	if ins.Low != nil {
		lo = x.get(fr, st, ins.Low).T
	}
	if ins.High != nil {
		hi = x.get(fr, st, ins.High).T
	}
	if ins.Max != nil {
		mx = x.get(fr, st, ins.Max).T
	}
	switch u := ins.X.Type().Underlying().(type) {
	case *types.Slice:
		s := base.T
		if lo == nil {
			lo = Int(0)
		}
		if hi == nil {
			hi = sLen(s)
		}
		capEnd := sCap(s)
		if mx != nil {
			capEnd = mx
		}
		c := And(Ge(lo, Int(0)), Le(lo, hi), Le(hi, capEnd), Le(capEnd, sCap(s)))
		if fr.nopanic {
			x.oblige(st, "safe", "slice", x.site(fr, ins), c, "slice bounds at "+x.pos(ins))
		}
		st.pc = And(st.pc, c)
		return Value{T: Mk(sortSlice, sArr(s), Add(sOff(s), lo), Sub(hi, lo), Sub(capEnd, lo))}
	case *types.Pointer:
		at := u.Elem().Underlying().(*types.Array)
		n := Int(at.Len())
		if lo == nil {
			lo = Int(0)
		}
		if hi == nil {
			hi = n
		}
		if base.LV != nil {
			unsup("slice of array inside struct")
		}
		c := And(Ge(lo, Int(0)), Le(lo, hi), Le(hi, n))
		if fr.nopanic {
			x.oblige(st, "safe", "slice", x.site(fr, ins), c, "slice bounds at "+x.pos(ins))
		}
		st.pc = And(st.pc, c)
		return Value{T: Mk(sortSlice, base.T, lo, Sub(hi, lo), Sub(n, lo))}
	case *types.Basic:
		// string slicing
		if lo == nil {
			lo = Int(0)
		}
		if hi == nil {
			hi = UF("str.len", "Int", base.T)
		}
		return Value{T: UF("str.substr", sortStr, base.T, lo, hi)}
	}
	unsup("Slice on %s", ins.X.Type())
	return Value{}
}

func (x *Exec) doUnOp(fr *Frame, st *State, ins *ssa.UnOp) Value {
	v := x.get(fr, st, ins.X)
	switch ins.Op {
	case token.MUL:
		elemT := ins.X.Type().Underlying().(*types.Pointer).Elem()
		if v.LV == nil {
			if g, ok := ins.X.(*ssa.Global); ok {
				if t := x.knownGlobal(g); t != nil {
					return Value{T: t}
				}
			}
			x.nilCheck(fr, st, v.T, ins, "load through nil pointer")
		}
		t := x.loadPtr(st, v, elemT)
		x.assume(st, x.wf(st, t, elemT))
		if g, ok := ins.X.(*ssa.Global); ok && strings.HasPrefix(g.Name(), "Err") && t.Sort == sortIface {
			x.assumed["package-level error variables named Err* are non-nil (they are initialised with errors.New and never reassigned)"] = true
			x.assume(st, Not(Eq(Acc(t, 0), Int(0))))
		}
		out := Value{T: t}
		if t.Sort == sortFn {
			out.Clo = x.closureOf(t)
		}
		return out
	case token.NOT:
		return Value{T: Not(v.T)}
	case token.SUB:
		return Value{T: Neg(v.T)}
	case token.ARROW:
		return x.doRecv(fr, st, ins, v)
	case token.XOR:
		return Value{T: UF("bitnot", "Int", v.T)}
	}
	unsup("unop %s", ins.Op)
	return Value{}
}

func (x *Exec) closureOf(t *Term) *Closure {
	if t.kind == kApp && t.Op == "mk_"+sortFn {
		if n, ok := isLitInt(t.Args[0]); ok && n.IsInt64() && int(n.Int64()) < len(x.fnByID) && n.Int64() > 0 {
			fn := x.fnByID[n.Int64()]
			if fn == nil {
				return nil
			}
			if c, ok := x.cloEnv[t.Args[1]]; ok {
				return c
			}
			if len(fn.FreeVars) == 0 {
				return &Closure{Fn: fn}
			}
			if len(fn.FreeVars) == 1 && strings.HasSuffix(fn.Name(), "$bound") {
				rt := fn.FreeVars[0].Type()
				if sortOf(rt) == "Int" {
					return &Closure{Fn: fn, Binds: []Value{{T: t.Args[1]}}}
				}
				return &Closure{Fn: fn, Binds: []Value{{T: UF("un"+boxName(rt), sortOf(rt), t.Args[1])}}}
			}
		}
	}
	return nil
}

// knownGlobal gives the value of immutable, well-known package-level variables.
func (x *Exec) knownGlobal(g *ssa.Global) *Term {
	switch g.Pkg.Pkg.Path() + "." + g.Name() {
	case "github.com/google/uuid.Nil":
		return zeroTerm(g.Type().Underlying().(*types.Pointer).Elem())
	case repoModule + "/workflow/storage/sqlite.zeroTime":
		// var zeroTime = time.Unix(0, 0), never reassigned
		x.assumed["storage: the package variable zeroTime is time.Unix(0, 0) (initialised once, never reassigned)"] = true
		return unixEpoch()
	}
	return nil
}

func (x *Exec) binop(op token.Token, a, b *Term, typ types.Type) *Term {
	switch op {
	case token.EQL:
		return x.eqTerms(a, b)
	case token.NEQ:
		return Not(x.eqTerms(a, b))
	}
	s := sortOf(typ)
	switch s {
	case "Int":
		switch op {
		case token.ADD:
			return Add(a, b)
		case token.SUB:
			return Sub(a, b)
		case token.MUL:
			return Mul(a, b)
		case token.QUO:
			return UF("go.div", "Int", a, b)
		case token.REM:
			return UF("go.rem", "Int", a, b)
		case token.LSS:
			return Lt(a, b)
		case token.LEQ:
			return Le(a, b)
		case token.GTR:
			return Gt(a, b)
		case token.GEQ:
			return Ge(a, b)
		case token.AND, token.OR, token.XOR, token.SHL, token.SHR, token.AND_NOT:
			return UF("bit."+smtName(op.String()), "Int", a, b)
		}
	case sortStr:
		switch op {
		case token.ADD:
			return UF("str.concat", sortStr, a, b)
		case token.LSS, token.LEQ, token.GTR, token.GEQ:
			return UF("str.cmp."+smtName(op.String()), "Bool", a, b)
		}
	case "Real":
		switch op {
		case token.ADD:
			return App("+", "Real", a, b)
		case token.SUB:
			return App("-", "Real", a, b)
		case token.MUL:
			return App("*", "Real", a, b)
		case token.QUO:
			return App("/", "Real", a, b)
		case token.LSS:
			return App("<", "Bool", a, b)
		case token.LEQ:
			return App("<=", "Bool", a, b)
		case token.GTR:
			return App(">", "Bool", a, b)
		case token.GEQ:
			return App(">=", "Bool", a, b)
		}
	case "Bool":
		switch op {
		case token.AND, token.LAND:
			return And(a, b)
		case token.OR, token.LOR:
			return Or(a, b)
		}
	}
	unsup("binop %s on %s", op, typ)
	return nil
}

func (x *Exec) eqTerms(a, b *Term) *Term {
	// Go only allows slices and functions to be compared with nil
	if a.Sort == sortSlice {
		if b == NilSlice() {
			return Eq(sArr(a), Int(0))
		}
		if a == NilSlice() {
			return Eq(sArr(b), Int(0))
		}
	}
	if a.Sort == sortFn {
		if b == NilFn() {
			return Eq(Acc(a, 0), Int(0))
		}
		if a == NilFn() {
			return Eq(Acc(b, 0), Int(0))
		}
	}
	return Eq(a, b)
}

func (x *Exec) doConvert(fr *Frame, st *State, ins *ssa.Convert) Value {
	v := x.get(fr, st, ins.X)
	from, to := sortOf(ins.X.Type()), sortOf(ins.Type())
	if from == to {
		if from == "Int" {
			// narrowing conversions are not modelled (machine arithmetic treated as mathematical)
			return v
		}
		return v
	}
	switch {
	case from == "Int" && to == "Real":
		return Value{T: App("to_real", "Real", v.T)}
	case from == "Real" && to == "Int":
		return Value{T: UF("go.trunc", "Int", v.T)}
	case from == sortStr && to == sortSlice:
		return x.freshVal(st, "bytes", ins.Type())
	case from == sortSlice && to == sortStr:
		return Value{T: Fresh("strconv", sortStr)}
	case from == "Int" && to == sortStr:
		return Value{T: UF("str.fromrune", sortStr, v.T)}
	}
	unsup("convert %s -> %s", ins.X.Type(), ins.Type())
	return Value{}
}

// interfaces ---------------------------------------------------------------

func boxName(typ types.Type) string { return "box_" + sortTag(sortOf(typ)) }

func (x *Exec) makeIface(st *State, v Value, typ types.Type) *Term {
	if _, ok := typ.Underlying().(*types.Interface); ok {
		return v.T
	}
	tag := typeTag(typ)
	if isPointerLike(typ) {
		return Mk(sortIface, tag, x.firstClass(v, typ))
	}
	t := x.firstClass(v, typ)
	b := UF(boxName(typ), "Int", t)
	boxSorts[boxName(typ)] = t.Sort
	if !t.hasBV {
		// injectivity, as a ground instance (terms under a quantifier get it from the axiom added in buildVC)
		x.assume(st, Eq(UF("un"+boxName(typ), t.Sort, b), t))
		x.assume(st, Ge(b, Int(0)))
	}
	return Mk(sortIface, tag, b)
}

var boxSorts = map[string]string{}

// boxAxioms: boxing is injective and yields non-negative references.
func boxAxioms() []*Term {
	var names []string
	for n := range boxSorts {
		names = append(names, n)
	}
	sort.Strings(names)
	var out []*Term
	for _, n := range names {
		v := BoundVar("q_bx", boxSorts[n])
		b := UF(n, "Int", v)
		out = append(out, Forall([]*Term{v}, [][]*Term{{b}}, And(Eq(UF("un"+n, boxSorts[n], b), v), Ge(b, Int(0)))))
	}
	return out
}

func (x *Exec) unbox(val *Term, typ types.Type) *Term {
	if isPointerLike(typ) {
		return val
	}
	return UF("un"+boxName(typ), sortOf(typ), val)
}

type ifaceAssert struct {
	name  string
	iface *types.Interface
}

var ifaceAsserts = map[string]*ifaceAssert{}

func implementsUF(it types.Type) string {
	name := "impl_" + mangleType(it)
	if _, ok := ifaceAsserts[name]; !ok {
		ifaceAsserts[name] = &ifaceAssert{name, it.Underlying().(*types.Interface)}
		declare(name, []string{"Int"}, "Bool")
	}
	return name
}

// ifaceFacts: ground facts impl_I(tag) for every registered tag.
func ifaceFacts() []*Term {
	var out []*Term
	var names []string
	for n := range ifaceAsserts {
		names = append(names, n)
	}
	sort.Strings(names)
	for _, n := range names {
		ia := ifaceAsserts[n]
		out = append(out, Not(App(n, "Bool", Int(0))))
		for tag := 1; tag < len(typeTagTypes); tag++ {
			t := typeTagTypes[tag]
			ok := types.Implements(t, ia.iface)
			f := App(n, "Bool", Int(int64(tag)))
			if !ok {
				f = Not(f)
			}
			out = append(out, f)
		}
	}
	return out
}

func (x *Exec) doTypeAssert(fr *Frame, st *State, ins *ssa.TypeAssert) Value {
	v := x.get(fr, st, ins.X)
	tag, val := Acc(v.T, 0), Acc(v.T, 1)
	var ok, res *Term
	if _, isI := ins.AssertedType.Underlying().(*types.Interface); isI {
		ok = App(implementsUF(ins.AssertedType), "Bool", tag)
		res = v.T
	} else {
		ok = Eq(tag, typeTag(ins.AssertedType))
		res = x.unbox(val, ins.AssertedType)
	}
	if ins.CommaOk {
		zero := zeroTerm(ins.AssertedType)
		return Value{Tup: []Value{{T: Ite(ok, res, zero)}, {T: ok}}}
	}
	if fr.nopanic {
		x.oblige(st, "safe", "assert", x.site(fr, ins), ok, "type assertion at "+x.pos(ins))
	}
	st.pc = And(st.pc, ok)
	return Value{T: res}
}

// evalInv evaluates a loop invariant clause in state st.
func (x *Exec) evalInv(fr *Frame, st, snap *State, loop *LoopInfo, inv Clause) *Term {
	con := x.contractForFrame(fr)
	env := &SpecEnv{x: x, vars: map[string]SVal{}, st: st, old: fr.entry, pkg: fnTypesPkg(fr.fn), lets: map[string]*Expr{}, fr: fr, loop: loop}
	if con != nil {
		env.free = x.freeOf[con]
		for i, p := range con.Params {
			if i < len(fr.params) && i < len(fr.fn.Params) {
				env.vars[p] = SVal{T: fr.params[i].T, GT: fr.fn.Params[i].Type(), LV: fr.params[i].LV}
			}
		}
		for _, l := range con.Lets {
			env.lets[l.Name] = l.Expr
		}
	}
	return env.boolean(inv.Expr)
}

// site names an instruction stably: "<function>.<class><ordinal>" where the ordinal counts
// instructions of the same class within that function in block order (no line numbers).
// For instructions executed in an inlined frame the inlined function's name is the prefix.
var siteCache = map[*ssa.Function]map[ssa.Instruction]string{}

func instrClass(ins ssa.Instruction) string {
	switch ins := ins.(type) {
	case *ssa.Call:
		return "call(" + shortCallee(&ins.Call) + ")"
	case *ssa.Defer:
		return "defer(" + shortCallee(&ins.Call) + ")"
	case *ssa.Go:
		return "go(" + shortCallee(&ins.Call) + ")"
	case *ssa.FieldAddr:
		return "field"
	case *ssa.UnOp:
		if ins.Op == token.MUL {
			return "load"
		}
		if ins.Op == token.ARROW {
			return "recv"
		}
		return "unop"
	case *ssa.Store:
		return "store"
	case *ssa.IndexAddr, *ssa.Index:
		return "index"
	case *ssa.Slice:
		return "slice"
	case *ssa.TypeAssert:
		return "assert"
	case *ssa.Panic:
		return "panic"
	case *ssa.Send:
		return "send"
	case *ssa.Select:
		return "select"
	case *ssa.MakeChan:
		return "makechan"
	}
	return "ins"
}

func shortCallee(cc *ssa.CallCommon) string {
	if cc.IsInvoke() {
		return cc.Method.Name()
	}
	if f := cc.StaticCallee(); f != nil {
		return relName(f)
	}
	if b, ok := cc.Value.(*ssa.Builtin); ok {
		return b.Name()
	}
	if p, ok := cc.Value.(*ssa.Parameter); ok {
		return p.Name()
	}
	return "fnvalue"
}

func (x *Exec) site(fr *Frame, ins ssa.Instruction) string {
	fn := fr.fn
	m := siteCache[fn]
	if m == nil {
		m = map[ssa.Instruction]string{}
		cnt := map[string]int{}
		for _, b := range fn.Blocks {
			for _, i := range b.Instrs {
				c := instrClass(i)
				cnt[c]++
				m[i] = fmt.Sprintf("%s%d", c, cnt[c])
				if strings.HasSuffix(c, ")") {
					m[i] = fmt.Sprintf("%s#%d", c, cnt[c])
				}
			}
		}
		siteCache[fn] = m
	}
	s := m[ins]
	if fr.parent != nil {
		s = relName(fn) + ":" + s
	}
	return s
}

func ghostListed(top *Frame, g string) bool {
	for _, r := range top.modRegions {
		if r.Ghost == g {
			return true
		}
	}
	return false
}

var loopWriteSets = map[*Frame]map[*LoopInfo]map[string]bool{}

func (fr *Frame) loopWrites(l *LoopInfo, w map[string]bool) {
	m := loopWriteSets[fr]
	if m == nil {
		m = map[*LoopInfo]map[string]bool{}
		loopWriteSets[fr] = m
	}
	m[l] = w
}

func sortedKeys(m map[string]bool) []string {
	var ks []string
	for k := range m {
		ks = append(ks, k)
	}
	sort.Strings(ks)
	return ks
}

// frameInv is the implicit loop invariant for heap array k: every location that existed at
// the entry of the function under verification and is outside its modifies clause holds
// its entry value.
func (x *Exec) frameInv(fr *Frame, st *State, k string) *Term {
	if strings.HasPrefix(k, "ghost:") || k == "alloc" {
		return nil
	}
	top := fr.top
	if top.con == nil || top.modRegions == nil {
		return nil
	}
	hs := heapSorts[k]
	h0 := top.entry.H(k, hs)
	h1 := st.H(k, hs)
	if h0 == h1 {
		return nil
	}
	r := BoundVar("q_fr", "Int")
	in := func(ref, idx *Term) *Term {
		var ds []*Term
		for _, reg := range top.modRegions {
			if reg.Key != k {
				continue
			}
			if reg.Single != nil {
				ds = append(ds, singleIn(reg, ref, idx))
			} else {
				ds = append(ds, reg.In(ref, idx))
			}
		}
		return Or(ds...)
	}
	if strings.HasPrefix(k, "EH_") {
		j := BoundVar("q_fj", "Int")
		return Forall([]*Term{r, j}, [][]*Term{{Select(Select(h1, r), j)}},
			Implies(And(Gt(r, Int(0)), Lt(r, top.entry.alloc), Not(in(r, j))), Eq(Select(Select(h1, r), j), Select(Select(h0, r), j))))
	}
	return Forall([]*Term{r}, [][]*Term{{Select(h1, r)}},
		Implies(And(Gt(r, Int(0)), Lt(r, top.entry.alloc), Not(in(r, nil))), Eq(Select(h1, r), Select(h0, r))))
}

// boundEnv encodes the receiver of a method value as the closure environment.
func (x *Exec) boundEnv(st *State, recv *Term, rt types.Type) *Term {
	if recv.Sort == "Int" {
		return recv
	}
	if su, ok := rt.Underlying().(*types.Struct); ok && su.NumFields() == 0 {
		return Int(0)
	}
	b := UF(boxName(rt), "Int", recv)
	x.assume(st, Eq(UF("un"+boxName(rt), recv.Sort, b), recv))
	return b
}

// boundMethods finds the bound-method wrapper functions ($bound) used anywhere in /repo.
func (x *Exec) boundMethod(recvT types.Type, name string) *ssa.Function {
	if x.bounds == nil {
		x.bounds = map[string]*ssa.Function{}
		for _, fn := range x.w.FuncList {
			for _, b := range fn.Blocks {
				for _, ins := range b.Instrs {
					if mc, ok := ins.(*ssa.MakeClosure); ok {
						f := mc.Fn.(*ssa.Function)
						if strings.HasSuffix(f.Name(), "$bound") && len(f.FreeVars) == 1 {
							k := types.TypeString(f.FreeVars[0].Type(), nil) + "." + strings.TrimSuffix(f.Name(), "$bound")
							x.bounds[k] = f
						}
					}
				}
			}
		}
	}
	return x.bounds[types.TypeString(recvT, nil)+"."+name]
}
