package main

// The iter rule: `for item := range walk.Plan(p) { body }`, which go/ssa compiles to the call
// walk.Plan(p)(body$k) of the iterator literal walk.Plan$1 on the synthesized yield function.
//
// What is used about walk.Plan$1 is what property C19 proves of it (contracts in
// /repo/workflow/utils/walk): it calls yield on the items of walkTrace(p) in order, one at a time, and
// never again after yield returned false. The rule exposes that enumeration through three
// uninterpreted functions of the *shape* of the plan tree (the heap arrays holding the structural
// fields the walk reads):
//
//	walkLen(shape, p)        number of items
//	walkObj(shape, p, k)     Value of item k
//	walkParent(shape, p, k)  last element of the Chain of item k (k >= 1)
//
// plus the facts listed in iterFacts (consequences of the fold that defines walkTrace; they are assumed
// here, not re-derived from the fold). The body closure is verified in place, as a loop body with the
// invariants declared `invariant iter N:` in the contract of the calling function:
//
//	init:  Inv(0) holds at the call
//	step:  from an arbitrary state satisfying Inv(k), 0 <= k < walkLen, the body runs on item k;
//	       if it returns true Inv(k+1) holds
//	exit:  either Inv(walkLen), or the state right after a body execution that returned false
//
// Side obligation iter-frame: the body writes none of the structural fields (otherwise the enumeration would
// change under the walk).

import (
	"fmt"
	"go/types"
	"sort"
	"strings"

	"golang.org/x/tools/go/ssa"
)

const iterKey = "walk.Plan$1"

// structural fields read by the walk, as (struct, field) of package workflow
var walkStructFields = [][2]string{
	{"Plan", "BypassChecks"}, {"Plan", "PreChecks"}, {"Plan", "ContChecks"}, {"Plan", "PostChecks"}, {"Plan", "DeferredChecks"}, {"Plan", "Blocks"},
	{"Block", "BypassChecks"}, {"Block", "PreChecks"}, {"Block", "ContChecks"}, {"Block", "PostChecks"}, {"Block", "DeferredChecks"}, {"Block", "Sequences"},
	{"Sequence", "Actions"}, {"Checks", "Actions"},
}

var walkElemTypes = []string{"Block", "Sequence", "Action"}

const sortShape = "WalkShape"

// walkShapeKeys: the heap arrays the walk reads.
func (x *Exec) walkShapeKeys() []string {
	wf := x.w.pkgByName("workflow", nil)
	if wf == nil {
		unsup("iter rule: package workflow not loaded")
	}
	var keys []string
	for _, sf := range walkStructFields {
		o := wf.Scope().Lookup(sf[0])
		if o == nil {
			unsup("iter rule: workflow.%s not found", sf[0])
		}
		su := o.Type().Underlying().(*types.Struct)
		i := fieldIndex(su, sf[1])
		if i < 0 {
			unsup("iter rule: workflow.%s.%s not found", sf[0], sf[1])
		}
		k, hs := fieldHeapKey(o.Type(), i)
		heapSorts[k] = hs
		keys = append(keys, k)
	}
	for _, n := range walkElemTypes {
		o := wf.Scope().Lookup(n)
		k, hs := elemHeapKey(types.NewPointer(o.Type()))
		heapSorts[k] = hs
		keys = append(keys, k)
	}
	return keys
}

// walkShape(st): the shape of all plan trees in state st, as one term.
func (x *Exec) walkShape(st *State) *Term {
	declareSort(sortShape)
	var args []*Term
	for _, k := range x.walkShapeKeys() {
		args = append(args, st.H(k, heapSorts[k]))
	}
	return UF("walkShape", sortShape, args...)
}

func (x *Exec) walkLen(st *State, p *Term) *Term { return UF("walkLen", "Int", x.walkShape(st), p) }
func (x *Exec) walkObj(st *State, p, k *Term) *Term {
	return UF("walkObj", sortIface, x.walkShape(st), p, k)
}
func (x *Exec) walkParent(st *State, p, k *Term) *Term {
	return UF("walkParent", sortIface, x.walkShape(st), p, k)
}

func (x *Exec) workflowPtr(name string) types.Type {
	wf := x.w.pkgByName("workflow", nil)
	return types.NewPointer(wf.Scope().Lookup(name).Type())
}

// iterFacts: what the rule assumes about item k of the walk of p (see the header comment).
func (x *Exec) iterFacts(st *State, p, k *Term) *Term {
	return x.iterFactsShape(x.walkShape(st), p, k)
}

// walkAxiom: the iter rule's facts for every item of every walk, as one quantified axiom (needed where contracts speak
// about wobj(p, k) outside a walk loop).
func (x *Exec) walkAxiom() *Term {
	declareSort(sortShape)
	s := BoundVar("q_shape", sortShape)
	p := BoundVar("q_wp", "Int")
	k := BoundVar("q_wk", "Int")
	n := UF("walkLen", "Int", s, p)
	return Forall([]*Term{s, p, k}, [][]*Term{{UF("walkObj", sortIface, s, p, k)}}, Implies(And(Ge(k, Int(0)), Lt(k, n)), x.iterFactsShape(s, p, k)))
}

func (x *Exec) iterFactsShape(shape, p, k *Term) *Term {
	n := UF("walkLen", "Int", shape, p)
	obj := UF("walkObj", sortIface, shape, p, k)
	par := UF("walkParent", sortIface, shape, p, k)
	tag := func(t *Term, name string) *Term { return Eq(Acc(t, 0), typeTag(x.workflowPtr(name))) }
	planT := x.workflowPtr("Plan")
	first := UF("walkObj", sortIface, shape, p, Int(0))
	return And(
		Ge(n, Int(1)),
		Eq(first, Mk(sortIface, typeTag(planT), p)),
		Or(tag(obj, "Plan"), tag(obj, "Checks"), tag(obj, "Block"), tag(obj, "Sequence"), tag(obj, "Action")),
		Eq(tag(obj, "Plan"), Eq(k, Int(0))),
		// the walk dereferences every plan, block, sequence and (non-nil-checked) checks group it yields
		Implies(Not(tag(obj, "Action")), Not(Eq(Acc(obj, 1), Int(0)))),
		Implies(Ge(k, Int(1)), And(
			Or(tag(par, "Plan"), tag(par, "Checks"), tag(par, "Block"), tag(par, "Sequence")),
			Not(Eq(Acc(par, 1), Int(0))),
			Eq(tag(obj, "Action"), Or(tag(par, "Checks"), tag(par, "Sequence"))),
			Implies(tag(obj, "Sequence"), tag(par, "Block")),
			Implies(tag(obj, "Block"), tag(par, "Plan")),
			Implies(tag(obj, "Checks"), Or(tag(par, "Plan"), tag(par, "Block"))),
		)),
	)
}

var iterPreSrc = []string{
	"p != nil",
	"forall i :: 0 <= i && i < len(p.Blocks) ==> p.Blocks[i] != nil",
	"forall i, j :: 0 <= i && i < len(p.Blocks) && 0 <= j && j < len(p.Blocks[i].Sequences) ==> p.Blocks[i].Sequences[j] != nil",
}

var iterPreExprs []*Expr

// When every node of the tree is a non-nil object with a State (what a vault's Read guarantees: macro storedPlan in
// /verif/spec/storage.spec), so is every item of the walk. A consequence of the fold that defines walkTrace; assumed.
var iterStoredExpr *Expr

func (x *Exec) iterStoredFacts(st *State, p *Term, pElem types.Type, pkg *types.Package, k *Term) *Term {
	if x.specs.macros["storedPlan"] == nil {
		return True
	}
	if iterStoredExpr == nil {
		iterStoredExpr = parseExprString("storedPlan(p)")
	}
	env := &SpecEnv{x: x, vars: map[string]SVal{"p": {T: p, GT: pElem}}, st: st, old: st, pkg: pkg, lets: map[string]*Expr{}}
	stored := env.boolean(iterStoredExpr)
	obj := x.walkObj(st, p, k)
	cs := []*Term{Not(Eq(Acc(obj, 1), Int(0)))}
	wf := x.w.pkgByName("workflow", nil)
	for _, n := range []string{"Plan", "Checks", "Block", "Sequence", "Action"} {
		t := wf.Scope().Lookup(n).Type()
		su := t.Underlying().(*types.Struct)
		key, hs := fieldHeapKey(t, fieldIndex(su, "State"))
		cs = append(cs, Implies(Eq(Acc(obj, 0), typeTag(types.NewPointer(t))), Not(Eq(Select(st.H(key, hs), Acc(obj, 1)), Int(0)))))
	}
	out := Implies(stored, And(cs...))
	if x.specs.macros["noNilPlan"] != nil {
		if iterNoNilExpr == nil {
			iterNoNilExpr = parseExprString("noNilPlan(p)")
		}
		out = And(out, Implies(env.boolean(iterNoNilExpr), Not(Eq(Acc(obj, 1), Int(0)))))
	}
	return out
}

var iterNoNilExpr *Expr

func parseExprString(src string) *Expr {
	toks, err := lex(src, "<rule>", 1)
	if err != nil {
		panic(err)
	}
	ps := &parser{toks: toks, file: "<rule>"}
	e, err := ps.parseExpr()
	if err != nil {
		panic(err)
	}
	return e
}

func (x *Exec) ruleIterWalk(fr *Frame, st *State, ins ssa.Instruction, callee *ssa.Function, args []Value, clo *Closure, site string) Value {
	x.assumed["iter rule: `for item := range walk.Plan(p)` enumerates walkObj(shape, p, 0..walkLen-1) in order and stops after the first false (what C19 proves of walk.Plan$1); assumed of the enumeration: item 0 is the plan, every item is a *Plan, *Checks, *Block, *Sequence or *Action, only actions may be nil pointers (and none is when the tree holds no nil node; with a State on every node - what a vault's Read returns - every item has a State), the last chain element of an action is its *Checks or *Sequence, of a sequence its *Block, of a block the plan"] = true
	if clo == nil || len(clo.Binds) != 1 || len(callee.FreeVars) != 1 {
		unsup("iter rule: the iterator is not a syntactically known walk.Plan(p) value")
	}
	pElem := callee.FreeVars[0].Type().Underlying().(*types.Pointer).Elem()
	p := x.loadPtr(st, clo.Binds[0], pElem)
	body := args[0]
	if body.Clo == nil && body.T != nil {
		body.Clo = x.closureOf(body.T)
	}
	if body.Clo == nil {
		unsup("iter rule: the loop body is not a known closure")
	}
	bodyFn := body.Clo.Fn
	// preconditions of the walk (it dereferences the plan, its blocks and their sequences)
	if iterPreExprs == nil {
		for _, s := range iterPreSrc {
			iterPreExprs = append(iterPreExprs, parseExprString(s))
		}
	}
	penv := &SpecEnv{x: x, vars: map[string]SVal{"p": {T: p, GT: pElem}}, st: st, old: st, pkg: fnTypesPkg(callee), lets: map[string]*Expr{}}
	for i, e := range iterPreExprs {
		c := penv.boolean(e)
		if fr.nopanic {
			x.oblige(st, "safe", fmt.Sprintf("walk-pre%d", i+1), site, c, "walk.Plan dereferences the plan, every block and every sequence: "+iterPreSrc[i])
		}
		x.assumePC(st, c)
	}
	// invariants
	con := x.contractForFrame(fr.top)
	if x.iterOrdOf == nil {
		x.iterOrdOf = map[ssa.Instruction]int{}
		x.iterCount = map[*ssa.Function]int{}
	}
	n, ok := x.iterOrdOf[ins]
	if !ok {
		x.iterCount[fr.top.fn]++
		n = x.iterCount[fr.top.fn]
		x.iterOrdOf[ins] = n
	}
	var invs []Clause
	if con != nil {
		invs = con.Invs[2000+n]
	}
	if invs == nil && x.dry == 0 && fr.top.con != nil {
		x.oblige(st, "inv", fmt.Sprintf("iter%d", n), "missing", False, fmt.Sprintf("no `invariant iter %d:` for the walk loop in %s", n, funcKey(fr.top.fn)))
	}
	entryShape := st.clone()
	evalInv := func(s *State, c Clause, k *Term) *Term {
		env := &SpecEnv{x: x, vars: map[string]SVal{}, st: s, old: fr.top.entry, pkg: fnTypesPkg(fr.top.fn), lets: map[string]*Expr{}, fr: fr.top, free: x.freeOf[con]}
		for i, prm := range con.Params {
			if i < len(fr.top.params) && i < len(fr.top.fn.Params) {
				env.vars[prm] = SVal{T: fr.top.params[i].T, GT: fr.top.fn.Params[i].Type()}
			}
		}
		for _, l := range con.Lets {
			env.lets[l.Name] = l.Expr
		}
		env.vars["iterk"] = SVal{T: k}
		env.vars["iterp"] = SVal{T: p, GT: pElem}
		return env.boolean(c.Expr)
	}
	// the hidden control variables of the range-over-func translation are 0 ("ready") between iterations
	jumpsReady := func(s *State) *Term {
		var cs []*Term
		for i, fv := range bodyFn.FreeVars {
			if strings.HasPrefix(fv.Name(), "jump$") && i < len(body.Clo.Binds) {
				et := fv.Type().Underlying().(*types.Pointer).Elem()
				cs = append(cs, Eq(x.loadPtr(s, body.Clo.Binds[i], et), Int(0)))
			}
		}
		return And(cs...)
	}
	invName := func(i int, c Clause) string {
		if c.Label != "" {
			return fmt.Sprintf("iter%d.%s", n, c.Label)
		}
		return fmt.Sprintf("iter%d.%d", n, i+1)
	}
	x.assume(st, x.iterFacts(st, p, Int(0)))
	for i, c := range invs {
		x.oblige(st, "inv", invName(i, c), "init", evalInv(st, c, Int(0)), "walk-loop invariant holds before the first item")
	}
	itemT := bodyFn.Signature.Params().At(0).Type()
	isu := itemT.Underlying().(*types.Struct)
	fVal, fChain := fieldIndex(isu, "Value"), fieldIndex(isu, "Chain")
	mkItem := func(s *State, k *Term) Value {
		it := x.freshVal(s, "item", itemT)
		ch := Acc(it.T, fChain)
		x.assume(s, Eq(Acc(it.T, fVal), x.walkObj(entryShape, p, k)))
		et := isu.Field(fChain).Type().Underlying().(*types.Slice).Elem()
		key, hs := elemHeapKey(et)
		heapSorts[key] = hs
		last := Select(Select(s.H(key, hs), sArr(ch)), ix(sOff(ch), Sub(sLen(ch), Int(1))))
		x.assume(s, And(Eq(Eq(sLen(ch), Int(0)), Eq(k, Int(0))), Implies(Ge(k, Int(1)), Eq(last, x.walkParent(entryShape, p, k)))))
		return it
	}
	// write set of one iteration
	wset := x.discoverWrites(st, func(dst *State) {
		k := Fresh("dry_iterk", "Int")
		x.callFunc(fr, dst, ins, bodyFn, []Value{mkItem(dst, k)}, body.Clo, site+".iter")
	})
	shapeKeys := map[string]bool{}
	for _, k := range x.walkShapeKeys() {
		shapeKeys[k] = true
	}
	var clash []string
	for k := range wset.keys {
		if shapeKeys[k] {
			clash = append(clash, k)
		}
	}
	sort.Strings(clash)
	if len(clash) > 0 {
		x.oblige(st, "iter-frame", fmt.Sprintf("iter%d", n), site, False, "the loop body writes structural fields the walk reads: "+strings.Join(clash, ", "))
	}
	for _, k := range sortedKeys(wset.keys) {
		if g := x.frameInv(fr, st, k); g != nil {
			x.oblige(st, "inv", fmt.Sprintf("iter%d.frame(%s)", n, k), "init", g, "implicit frame of the walk loop")
		}
	}
	assumeInv := func(s *State, k *Term) {
		var js []*Term
		for _, c := range invs {
			js = append(js, evalInv(s, c, k))
		}
		for _, wk := range sortedKeys(wset.keys) {
			if g := x.frameInv(fr, s, wk); g != nil {
				js = append(js, g)
			}
		}
		js = append(js, jumpsReady(s))
		x.assumePC(s, And(js...))
	}
	wlen := x.walkLen(entryShape, p)
	// an arbitrary iteration
	it := st.clone()
	x.havocWriteSet(fr, it, wset, "iter")
	k := Fresh("iterk", "Int")
	x.assumePC(it, And(Ge(k, Int(0)), Lt(k, wlen)))
	x.assume(it, x.iterFacts(entryShape, p, k))
	x.assume(it, x.iterStoredFacts(it, p, pElem, fnTypesPkg(callee), k))
	assumeInv(it, k)
	r := x.callFunc(fr, it, ins, bodyFn, []Value{mkItem(it, k)}, body.Clo, site+".iter")
	var outs []*State
	early := Fresh("iter_early", "Bool")
	if it.pc != False {
		cont := it.clone()
		cont.pc = And(it.pc, r.T)
		if cont.pc != False {
			for i, c := range invs {
				x.oblige(cont, "inv", invName(i, c), "step", evalInv(cont, c, Add(k, Int(1))), "every item preserves the walk-loop invariant")
			}
			for _, wk := range sortedKeys(wset.keys) {
				if g := x.frameInv(fr, cont, wk); g != nil {
					x.oblige(cont, "inv", fmt.Sprintf("iter%d.frame(%s)", n, wk), "step", g, "implicit frame of the walk loop")
				}
			}
			x.oblige(cont, "inv", fmt.Sprintf("iter%d.ready", n), "step", jumpsReady(cont), "the synthesized yield function is ready for the next item")
		}
		stop := it
		stop.pc = And(it.pc, Not(r.T), early)
		if stop.pc != False {
			outs = append(outs, stop)
		}
	}
	// normal exit: all items done
	ex := st.clone()
	x.havocWriteSet(fr, ex, wset, "iterx")
	x.assume(ex, x.iterFacts(entryShape, p, Int(0)))
	assumeInv(ex, wlen)
	ex.pc = And(ex.pc, Not(early))
	if ex.pc != False {
		outs = append(outs, ex)
	}
	if len(outs) == 0 {
		st.pc = False
		return Value{}
	}
	m := mergeStates(outs)
	*st = *m.clone()
	return Value{}
}
