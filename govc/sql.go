package main

// The storage layer (package workflow/storage/sqlite): trusted rules for the statement recorder (the package's own Stmt
// type, 40 lines: it binds what it was given), for the zombiezen.com/go/sqlite bindings (prepared statements, column
// getters, sqlitex.Execute's ResultFunc protocol, sqlitex.Transaction), for JSON of id lists, for uuid.Parse and for the
// Unix-time conversions. SQL itself is not interpreted: contracts speak about which value is bound to which named
// parameter when a statement is stepped, and which named column a decoder reads; that the column written by parameter
// $x of an INSERT/UPDATE is the column x returned by the SELECT is checked syntactically on the SQL constants
// (sqlColumnsCheck) and otherwise trusted to SQLite.

import (
	"fmt"
	"go/constant"
	"go/types"
	"regexp"
	"sort"
	"strings"

	"golang.org/x/tools/go/ssa"
)

const sortBytes = "Bytes"

func init() {
	declareSort(sortBytes)
	ghostSorts["stQ"] = arraySort("Int", sortStr)                      // recorder -> query text
	ghostSorts["bT"] = arraySort("Int", arraySort(sortStr, sortStr))   // recorder -> text parameters
	ghostSorts["bI"] = arraySort("Int", arraySort(sortStr, "Int"))     // recorder -> int64 parameters
	ghostSorts["bB"] = arraySort("Int", arraySort(sortStr, sortBytes)) // recorder -> bytes parameters
	ghostSorts["bKind"] = arraySort("Int", arraySort(sortStr, "Int"))  // recorder -> 0 unbound (NULL), 1 text, 2 int64, 3 bytes, 4 bool, 5 null, 6 float
	ghostSorts["psOf"] = arraySort("Int", "Int")                       // prepared statement -> recorder it was prepared from
	ghostSorts["steps"] = "Int"                                        // statements stepped successfully so far (writes that happened)
	ghostSorts["txOpen"] = "Bool"                                      // a sqlitex.Transaction is open on the connection in use
	ghostSorts["txErrCell"] = "Int"                                    // the *error handed to the transaction's end function
	ghostSorts["txCommitted"] = "Bool" // the transaction's end function ran and committed
	ghostSorts["txEnded"] = "Bool"
	ghostSorts["cbRow"] = "Int" // the row most recently delivered to a ResultFunc
	volatileGhost["cbRow"] = true
	ghostSorts["cbRows"] = "Int"                                       // rows delivered so far by the sqlitex.Execute in progress
	volatileGhost["cbRows"] = true
}

func isSqlitePkg(fn *ssa.Function) bool {
	return fn != nil && fnTypesPkg(fn) != nil && strings.HasSuffix(fnTypesPkg(fn).Path(), "/workflow/storage/sqlite")
}

func calleeOf(ins ssa.Instruction) *ssa.Function {
	switch c := ins.(type) {
	case *ssa.Call:
		return c.Call.StaticCallee()
	case *ssa.Defer:
		return c.Call.StaticCallee()
	case *ssa.Go:
		return c.Call.StaticCallee()
	}
	return nil
}

// bytesVal: the value of a []byte as an uninterpreted term of its contents.
func (x *Exec) bytesVal(st *State, s *Term) *Term {
	key, hs := elemHeapKey(types.Typ[types.Uint8])
	heapSorts[key] = hs
	row := Select(st.H(key, hs), sArr(s))
	return Ite(Eq(sLen(s), Int(0)), Const("bytes_empty", sortBytes), UF("bytesval", sortBytes, row, sOff(s), sLen(s)))
}

func unixEpoch() *Term { return Const("unix_epoch", "Int") }

func init() {
	// ---- the package's statement recorder --------------------------------------------------------------------------
	recorder := func(name string, kind int64) ruleFn {
		return func(x *Exec, fr *Frame, st *State, ins ssa.Instruction, sig *types.Signature, args []Value) Value {
			callee := calleeOf(ins)
			if !isSqlitePkg(callee) {
				// zombiezen's *sqlite.Stmt has methods of the same names: binding directly on a prepared statement, which
				// acts as its own recorder (psOf[ps] == ps, set by the rule for (*Conn).Prepare)
				if name == "Query" {
					return x.resultValue(st, "ext_sqlite."+name, sig.Results())
				}
			} else {
				x.assumed["storage: the sqlite package's Stmt recorder binds to the prepared statement exactly the parameters it was given (its 40 lines are not verified)"] = true
			}
			r := args[0].T
			if name == "Query" {
				gSet(st, "stQ", r, args[1].T)
				gSet(st, "bKind", r, ConstArray(arraySort(sortStr, "Int"), Int(0)))
				return Value{}
			}
			p := args[1].T
			gSet(st, "bKind", r, Store(gSel(st, "bKind", r), p, Int(kind)))
			switch name {
			case "SetText":
				gSet(st, "bT", r, Store(gSel(st, "bT", r), p, args[2].T))
			case "SetInt64":
				gSet(st, "bI", r, Store(gSel(st, "bI", r), p, args[2].T))
			case "SetBool":
				gSet(st, "bI", r, Store(gSel(st, "bI", r), p, Ite(args[2].T, Int(1), Int(0))))
			case "SetBytes":
				gSet(st, "bB", r, Store(gSel(st, "bB", r), p, x.bytesVal(st, args[2].T)))
			}
			return Value{}
		}
	}
	rules["sqlite.(*Stmt).Query"] = recorder("Query", 0)
	rules["sqlite.(*Stmt).SetText"] = recorder("SetText", 1)
	rules["sqlite.(*Stmt).SetInt64"] = recorder("SetInt64", 2)
	rules["sqlite.(*Stmt).SetBytes"] = recorder("SetBytes", 3)
	rules["sqlite.(*Stmt).SetBool"] = recorder("SetBool", 4)
	rules["sqlite.(*Stmt).SetNull"] = recorder("SetNull", 5)
	rules["sqlite.(*Stmt).SetFloat"] = recorder("SetFloat", 6)
	rules["sqlite.(*Stmt).Prepare"] = func(x *Exec, fr *Frame, st *State, ins ssa.Instruction, sig *types.Signature, args []Value) Value {
		ev := x.freshVal(st, "prepareerr", sig.Results().At(1).Type())
		e := ev.T
		ok := Eq(Acc(e, 0), Int(0))
		// a successfully prepared statement is a new object
		nr := x.newRef(st)
		ps := Ite(ok, nr, Int(0))
		if isSqlitePkg(calleeOf(ins)) {
			st.setG("psOf", Ite(ok, Store(st.G("psOf"), nr, args[0].T), st.G("psOf")))
		}
		return Value{Tup: []Value{{T: ps}, ev}}
	}
	rules["sqlite.(*Conn).Prepare"] = func(x *Exec, fr *Frame, st *State, ins ssa.Instruction, sig *types.Signature, args []Value) Value {
		ev := x.freshVal(st, "prepareerr", sig.Results().At(1).Type())
		ok := Eq(Acc(ev.T, 0), Int(0))
		nr := x.newRef(st)
		st.setG("psOf", Ite(ok, Store(st.G("psOf"), nr, nr), st.G("psOf")))
		st.setG("stQ", Ite(ok, Store(st.G("stQ"), nr, args[1].T), st.G("stQ")))
		st.setG("bKind", Ite(ok, Store(st.G("bKind"), nr, ConstArray(arraySort(sortStr, "Int"), Int(0))), st.G("bKind")))
		return Value{Tup: []Value{{T: Ite(ok, nr, Int(0))}, ev}}
	}
	rules["sqlite.(*CaptureStmts).Capture"] = func(x *Exec, fr *Frame, st *State, ins ssa.Instruction, sig *types.Signature, args []Value) Value {
		return Value{} // test-only capture of statements
	}
	// ---- zombiezen prepared statements -----------------------------------------------------------------------------
	rules["sqlite.(*Stmt).Step"] = func(x *Exec, fr *Frame, st *State, ins ssa.Instruction, sig *types.Signature, args []Value) Value {
		x.assumed["storage: (*sqlite.Stmt).Step executes the prepared statement with its bound parameters; it returns an error iff SQLite rejected it (then nothing was written by it)"] = true
		if fr.nopanic {
			x.nilCheck(fr, st, args[0].T, ins, "Step on a nil prepared statement")
		} else {
			// a nil *sqlite.Stmt panics inside the library
			x.oblige(st, "safe", "nil-stmt", x.site(fr, ins), Not(Eq(args[0].T, Int(0))), "Step on a nil prepared statement (the Prepare error was not checked) at "+x.pos(ins))
			st.pc = And(st.pc, Not(Eq(args[0].T, Int(0))))
		}
		res := x.resultValue(st, "step", sig.Results())
		ok := Eq(Acc(res.Tup[1].T, 0), Int(0))
		st.setG("steps", Ite(ok, Add(st.G("steps"), Int(1)), st.G("steps")))
		return res
	}
	getter := func(uf, sort string) ruleFn {
		return func(x *Exec, fr *Frame, st *State, ins ssa.Instruction, sig *types.Signature, args []Value) Value {
			return Value{T: UF(uf, sort, args[0].T, args[1].T)}
		}
	}
	rules["sqlite.(*Stmt).GetText"] = getter("colText", sortStr)
	rules["sqlite.(*Stmt).GetInt64"] = getter("colInt", "Int")
	rules["sqlite.(*Stmt).GetLen"] = func(x *Exec, fr *Frame, st *State, ins ssa.Instruction, sig *types.Signature, args []Value) Value {
		n := UF("colLen", "Int", args[0].T, args[1].T)
		x.assume(st, Ge(n, Int(0)))
		return Value{T: n}
	}
	rules["sqlite.(*Stmt).GetBytes"] = func(x *Exec, fr *Frame, st *State, ins ssa.Instruction, sig *types.Signature, args []Value) Value {
		// fills buf with the column's bytes: afterwards bytesval(buf[:n]) is the column value
		buf := args[2].T
		key, hs := elemHeapKey(types.Typ[types.Uint8])
		heapSorts[key] = hs
		h := st.H(key, hs)
		row := Fresh("colrow", arraySort("Int", "Int"))
		st.setH(key, Store(h, sArr(buf), row))
		n := UF("colLen", "Int", args[0].T, args[1].T)
		x.assume(st, Implies(Eq(sLen(buf), n), Eq(x.bytesVal(st, buf), UF("colBytes", sortBytes, args[0].T, args[1].T))))
		return Value{T: Ite(Lt(n, sLen(buf)), n, sLen(buf))}
	}
	rules["sqlite.(*Stmt).ColumnInt"] = func(x *Exec, fr *Frame, st *State, ins ssa.Instruction, sig *types.Signature, args []Value) Value {
		return Value{T: UF("colIntAt", "Int", args[0].T, args[1].T)}
	}
	// ---- sqlitex ------------------------------------------------------------------------------------------------------
	// Transaction(conn) opens a savepoint and returns the function that ends it: it commits iff *errp == nil at that time
	rules["sqlitex.Transaction"] = func(x *Exec, fr *Frame, st *State, ins ssa.Instruction, sig *types.Signature, args []Value) Value {
		x.assumed["storage: sqlitex.Transaction(conn) opens a transaction; the returned function, given &err, commits iff *err == nil when it runs and rolls everything back otherwise; SQLite commits atomically, also across process death"] = true
		if con := x.contractForFrame(fr.top); con != nil && con.Attrs["readonlytx"] == "yes" {
			// a transaction opened by a function that steps no writing statement: it plays no part in the write bracket
			return Value{T: Mk(sortFn, Int(int64(x.txEndFnID())), Int(1))}
		}
		st.setG("txOpen", True)
		fn := Mk(sortFn, Int(int64(x.txEndFnID())), Int(0))
		return Value{T: fn}
	}
	rules["sqlitex.Save"] = rules["sqlitex.Transaction"]
	rules["sqlitex.Execute"] = ruleSqlitexExecute
	rules["sqlitex.ExecuteTransient"] = ruleSqlitexExecute
	// ---- uuid / time / json -----------------------------------------------------------------------------------------
	rules["uuid.Parse"] = func(x *Exec, fr *Frame, st *State, ins ssa.Instruction, sig *types.Signature, args []Value) Value {
		x.assumed["library: uuid.Parse inverts UUID.String (uuidparse(uuidstr(u)) == u, and Parse succeeds on every String() result)"] = true
		u := UF("uuidparse", sortUUID, args[0].T)
		e := x.freshVal(st, "parseerr", sig.Results().At(1).Type())
		x.assume(st, Eq(Eq(Acc(e.T, 0), Int(0)), UF("uuidparses", "Bool", args[0].T)))
		return Value{Tup: []Value{{T: Ite(Eq(Acc(e.T, 0), Int(0)), u, zeroTerm(sig.Results().At(0).Type()))}, e}}
	}
	rules["time.(Time).UnixNano"] = func(x *Exec, fr *Frame, st *State, ins ssa.Instruction, sig *types.Signature, args []Value) Value {
		x.assumed["time: Time is integer nanoseconds, the zero Time is 0, the Unix epoch is the positive constant unix_epoch; UnixNano(t) = t - unix_epoch, time.Unix(s, n) = unix_epoch + s*1e9 + n; clock values are after the epoch"] = true
		return Value{T: Sub(args[0].T, unixEpoch())}
	}
	rules["time.Unix"] = func(x *Exec, fr *Frame, st *State, ins ssa.Instruction, sig *types.Signature, args []Value) Value {
		return Value{T: Add(unixEpoch(), Add(Mul(args[0].T, Int(1000000000)), args[1].T))}
	}
	rulePrefixes["json.Marshal"] = func(x *Exec, fr *Frame, st *State, ins ssa.Instruction, sig *types.Signature, args []Value) Value {
		x.assumed["library: json.Marshal/Unmarshal are inverse on lists of id strings (jsondecStrs(jsonenc(list)) == list); for requests, responses and attempts the encoding is an uninterpreted function of the value"] = true
		res := x.resultValue(st, "marshal", sig.Results())
		b, e := res.Tup[0].T, res.Tup[1].T
		x.assume(st, Implies(Eq(Acc(e, 0), Int(0)), And(Eq(x.bytesVal(st, b), x.jsonEnc(st, ins, args[0])), Gt(sLen(b), Int(0)))))
		x.assume(st, Implies(Not(Eq(Acc(e, 0), Int(0))), Eq(sArr(b), Int(0))))
		return res
	}
	rulePrefixes["json.Unmarshal"] = func(x *Exec, fr *Frame, st *State, ins ssa.Instruction, sig *types.Signature, args []Value) Value {
		return x.jsonUnmarshal(fr, st, ins, sig, args)
	}
}

var txEndID int

func (x *Exec) txEndFnID() int {
	if txEndID == 0 {
		x.fnByID = append(x.fnByID, nil)
		txEndID = len(x.fnByID) - 1
	}
	return txEndID
}

// jsonEnc: the encoding of the value passed to json.Marshal. For []string the encoding is characterised pointwise:
// jsonStrLen(enc) and jsonStrAt(enc, i) are the length and the i-th element of the encoded list.
func (x *Exec) jsonEnc(st *State, ins ssa.Instruction, v Value) *Term {
	if c, ok := ins.(*ssa.Call); ok && len(c.Call.Args) > 0 {
		if mi, ok := c.Call.Args[0].(*ssa.MakeInterface); ok {
			if sl, ok := mi.X.Type().Underlying().(*types.Slice); ok {
				if b, ok := sl.Elem().Underlying().(*types.Basic); ok && b.Kind() == types.String {
					s := x.unbox(Acc(v.T, 1), mi.X.Type())
					key, hs := elemHeapKey(sl.Elem())
					row := Select(st.H(key, hs), sArr(s))
					enc := Fresh("jsonlist", sortBytes)
					i := BoundVar("q_ji", "Int")
					x.assume(st, And(Eq(UF("jsonStrLen", "Int", enc), sLen(s)),
						Forall([]*Term{i}, [][]*Term{{UF("jsonStrAt", sortStr, enc, i)}}, Implies(And(Ge(i, Int(0)), Lt(i, sLen(s))), Eq(UF("jsonStrAt", sortStr, enc, i), Select(row, ix(sOff(s), i)))))))
					return enc
				}
			}
		}
	}
	return UF("jsonenc", sortBytes, v.T)
}

func (x *Exec) jsonUnmarshal(fr *Frame, st *State, ins ssa.Instruction, sig *types.Signature, args []Value) Value {
	e := x.freshVal(st, "unmarshalerr", sig.Results().At(0).Type())
	ok := Eq(Acc(e.T, 0), Int(0))
	data := x.bytesVal(st, args[0].T)
	c, _ := ins.(*ssa.Call)
	if c != nil && len(c.Call.Args) > 1 {
		if mi, isMI := c.Call.Args[1].(*ssa.MakeInterface); isMI {
			if pt, isPtr := mi.X.Type().Underlying().(*types.Pointer); isPtr {
				target := x.get(fr, st, mi.X)
				switch et := pt.Elem().Underlying().(type) {
				case *types.Slice:
					// *[]T: on success the target holds a newly allocated slice
					arr := x.newRef(st)
					ns := x.freshVal(st, "decoded", pt.Elem())
					x.assume(st, And(Eq(sArr(ns.T), arr), Eq(sOff(ns.T), Int(0)), Ge(sCap(ns.T), sLen(ns.T))))
					if b, isB := et.Elem().Underlying().(*types.Basic); isB && b.Kind() == types.String {
						key, hs := elemHeapKey(et.Elem())
						row := Select(st.H(key, hs), arr)
						i := BoundVar("q_ji", "Int")
						x.assume(st, Implies(ok, And(Eq(sLen(ns.T), UF("jsonStrLen", "Int", data)),
							Forall([]*Term{i}, [][]*Term{{Select(row, i)}}, Implies(And(Ge(i, Int(0)), Lt(i, sLen(ns.T))), Eq(Select(row, i), UF("jsonStrAt", sortStr, data, i)))))))
					}
					old := x.loadPtr(st, target, pt.Elem())
					x.storePtr(st, target, pt.Elem(), Ite(ok, ns.T, old))
					return e
				case *types.Struct:
					// *Struct (an Attempt): the fields are overwritten by decoded values (uninterpreted)
					if target.LV == nil {
						x.nilCheck(fr, st, target.T, ins, "json.Unmarshal into nil pointer")
					}
					// every field is a function of the document and the field (jsonfield(data, T, f) in contracts): decoding the same
					// bytes twice gives the same values. Scalars, strings, times, ids: the value itself; []byte: its bytes value;
					// lists of ids: length and elements pointwise; anything else: unconstrained.
					tn := typeKeyName(pt.Elem())
					for i := 0; i < et.NumFields(); i++ {
						lv := x.fieldLV(target, pt.Elem(), i)
						ft := et.Field(i).Type()
						nv := x.jsonFieldValue(st, ok, ft, data, tn, et.Field(i).Name())
						x.writeLV(st, lv, Ite(ok, nv, x.readLV(st, lv)))
					}
					return e
				case *types.Interface:
					// *any: replaced by a decoded value of the same dynamic type
					old := x.loadPtr(st, target, pt.Elem())
					nv := x.freshVal(st, "decany", pt.Elem())
					x.assume(st, Eq(Acc(nv.T, 0), Acc(old, 0)))
					x.storePtr(st, target, pt.Elem(), Ite(ok, nv.T, old))
					return e
				}
			}
		}
	}
	// anything else (a request object behind an interface): decoded in place inside external memory
	return e
}

// typeKeyName: a name for a (named) struct type usable inside an SMT symbol.
func typeKeyName(t types.Type) string {
	if n, ok := types.Unalias(t).(*types.Named); ok {
		if n.Obj().Pkg() != nil {
			return n.Obj().Pkg().Name() + "_" + n.Obj().Name()
		}
		return n.Obj().Name()
	}
	return "anon"
}

// jsonFieldTerm: the value of field f of the document `data` decoded as struct type tn (for sorts the solver sees directly).
func jsonFieldTerm(sort string, data *Term, tn, f string) *Term {
	return UF("jsonfield_"+tn+"_"+f+"_"+sortSuffix(sort), sort, data)
}

func sortSuffix(s string) string {
	r := strings.NewReplacer("(", "", ")", "", " ", "_")
	return r.Replace(s)
}

// jsonFieldValue: the decoded value of one field. A list is a newly allocated slice (allocated before the value is made, so
// that the value's well-formedness - arrays below the allocation watermark - does not contradict it).
func (x *Exec) jsonFieldValue(st *State, ok *Term, ft types.Type, data *Term, tn, f string) *Term {
	if sl, isSl := ft.Underlying().(*types.Slice); isSl {
		arr := x.newRef(st)
		v := x.freshVal(st, "decfield", ft).T
		x.assume(st, Implies(ok, And(Ge(sLen(v), Int(0)), Or(Eq(sLen(v), Int(0)), And(Eq(sArr(v), arr), Eq(sOff(v), Int(0)), Ge(sCap(v), sLen(v)))))))
		if b, isB := sl.Elem().Underlying().(*types.Basic); isB && b.Kind() == types.Uint8 {
			x.assume(st, Implies(ok, Eq(x.bytesVal(st, v), jsonFieldTerm(sortBytes, data, tn, f))))
			return v
		}
		es := sortOf(sl.Elem())
		key, hs := elemHeapKey(sl.Elem())
		heapSorts[key] = hs
		row := Select(st.H(key, hs), sArr(v))
		i := BoundVar("q_jf", "Int")
		at := UF("jsonfieldat_"+tn+"_"+f+"_"+sortSuffix(es), es, data, i)
		x.assume(st, Implies(ok, And(Eq(sLen(v), UF("jsonfieldlen_"+tn+"_"+f, "Int", data)),
			Forall([]*Term{i}, [][]*Term{{Select(row, ix(sOff(v), i))}}, Implies(And(Ge(i, Int(0)), Lt(i, sLen(v))), Eq(Select(row, ix(sOff(v), i)), at))))))
		return v
	}
	v := x.freshVal(st, "decfield", ft).T
	x.assume(st, Implies(ok, Eq(v, jsonFieldTerm(v.Sort, data, tn, f))))
	return v
}

func jsonAxioms() []*Term { return nil }

func uuidAxioms() []*Term {
	if _, ok := symTab["uuidparse"]; !ok {
		return nil
	}
	if _, ok := symTab["uuidstr"]; !ok {
		return nil
	}
	u := BoundVar("q_uu", sortUUID)
	s := UF("uuidstr", sortStr, u)
	return []*Term{Forall([]*Term{u}, [][]*Term{{s}}, And(Eq(UF("uuidparse", sortUUID, s), u), UF("uuidparses", "Bool", s), Not(Eq(s, strLit("")))))}
}

// ruleSqlitexExecute: sqlitex.Execute(conn, query, opts) runs the query and calls opts.ResultFunc once per result row, in
// order, stopping at the first error (read from zombiezen.com/go/sqlite/sqlitex). Zero rows is a possible outcome. The
// ResultFunc literal is verified in place, as a loop body with the invariants declared `invariant cb N:` in the contract
// of the calling function; cbRows counts the rows delivered so far. Execute returns nil only if every call returned nil.
func ruleSqlitexExecute(x *Exec, fr *Frame, st *State, ins ssa.Instruction, sig *types.Signature, args []Value) Value {
	x.assumed["storage: sqlitex.Execute calls ResultFunc once per result row in order and stops at the first error; it returns nil only if the statement succeeded and every ResultFunc call returned nil; a query may return no row"] = true
	opts := args[2]
	if opts.T == nil {
		unsup("sqlitex.Execute: options are not a first-class pointer")
	}
	ot := sig.Params().At(2).Type().Underlying().(*types.Pointer).Elem()
	osu := ot.Underlying().(*types.Struct)
	fi := fieldIndex(osu, "ResultFunc")
	var cb Value
	hasCB := st.clone()
	if fi >= 0 {
		t := x.readLV(st, x.fieldLV(opts, ot, fi))
		cb = Value{T: t, Clo: x.closureOf(t)}
	}
	_ = hasCB
	con := x.contractForFrame(fr.top)
	if x.cbOrdOf == nil {
		x.cbOrdOf = map[ssa.Instruction]int{}
		x.cbCount = map[*ssa.Function]int{}
	}
	n, ok := x.cbOrdOf[ins]
	if !ok {
		x.cbCount[fr.top.fn]++
		n = x.cbCount[fr.top.fn]
		x.cbOrdOf[ins] = n
	}
	site := x.site(fr, ins)
	errT := sig.Results().At(0).Type()
	if cb.Clo == nil {
		// no ResultFunc (or not a known literal): nothing of /repo runs
		if cb.T != nil && cb.T != NilFn() && !(cb.T.kind == kApp && cb.T.Op == "mk_"+sortFn) {
			unsup("sqlitex.Execute: ResultFunc is not a known function literal")
		}
		return x.freshVal(st, "execerr", errT)
	}
	var invs []Clause
	if con != nil {
		invs = con.Invs[3000+n]
	}
	if invs == nil && x.dry == 0 && fr.top.con != nil {
		x.oblige(st, "inv", fmt.Sprintf("cb%d", n), "missing", False, fmt.Sprintf("no `invariant cb %d:` for the ResultFunc of the sqlitex.Execute in %s", n, funcKey(fr.top.fn)))
	}
	evalInv := func(s *State, c Clause) *Term {
		env := &SpecEnv{x: x, vars: map[string]SVal{}, st: s, old: fr.top.entry, pkg: fnTypesPkg(fr.top.fn), lets: map[string]*Expr{}, fr: fr.top, free: x.freeOf[con]}
		for i, prm := range con.Params {
			if i < len(fr.top.params) && i < len(fr.top.fn.Params) {
				env.vars[prm] = SVal{T: fr.top.params[i].T, GT: fr.top.fn.Params[i].Type()}
			}
		}
		for _, l := range con.Lets {
			env.lets[l.Name] = l.Expr
		}
		return env.boolean(c.Expr)
	}
	invName := func(i int, c Clause) string {
		if c.Label != "" {
			return fmt.Sprintf("cb%d.%s", n, c.Label)
		}
		return fmt.Sprintf("cb%d.%d", n, i+1)
	}
	st.setG("cbRows", Int(0))
	for i, c := range invs {
		x.oblige(st, "inv", invName(i, c), "init", evalInv(st, c), "ResultFunc invariant holds before the first row")
	}
	bodyFn := cb.Clo.Fn
	rowT := bodyFn.Signature.Params().At(0).Type()
	wset := x.discoverWrites(st, func(dst *State) {
		row := x.freshVal(dst, "dry_row", rowT)
		x.callFunc(fr, dst, ins, bodyFn, []Value{row}, cb.Clo, site+".row")
	})
	for _, k := range sortedKeys(wset.keys) {
		if g := x.frameInv(fr, st, k); g != nil {
			x.oblige(st, "inv", fmt.Sprintf("cb%d.frame(%s)", n, k), "init", g, "implicit frame of the ResultFunc loop")
		}
	}
	assumeInv := func(s *State) {
		var js []*Term
		for _, c := range invs {
			js = append(js, evalInv(s, c))
		}
		for _, wk := range sortedKeys(wset.keys) {
			if g := x.frameInv(fr, s, wk); g != nil {
				js = append(js, g)
			}
		}
		x.assumePC(s, And(js...))
	}
	// an arbitrary row
	it := st.clone()
	x.havocWriteSet(fr, it, wset, "cb")
	cnt := Fresh("cbrows", "Int")
	x.assumePC(it, Ge(cnt, Int(0)))
	it.setG("cbRows", cnt)
	assumeInv(it)
	row := x.freshVal(it, "row", rowT)
	x.assume(it, Not(Eq(row.T, Int(0))))
	it.setG("cbRow", row.T)
	// SQL semantics used: a query whose text ends in `WHERE id = $id` only returns rows whose id column equals the value
	// bound to $id
	if qs, ok := strLitOf[args[1].T]; ok && regexp.MustCompile(`(?is)where\s+id\s*=\s*\$id\s*;?\s*$`).MatchString(qs) {
		if ni := fieldIndex(osu, "Named"); ni >= 0 {
			if mt, ok := osu.Field(ni).Type().Underlying().(*types.Map); ok {
				m := x.readLV(it, x.fieldLV(opts, ot, ni))
				v := x.mapValue(it, mt, m, strLit("$id"))
				x.assumed["storage: a SELECT ... WHERE id = $id returns only rows whose id column equals the text bound to $id"] = true
				x.assume(it, Implies(Eq(Acc(v, 0), typeTag(types.Typ[types.String])), Eq(UF("colText", sortStr, row.T, strLit("id")), x.unbox(Acc(v, 1), types.Typ[types.String]))))
			}
		}
	}
	r := x.callFunc(fr, it, ins, bodyFn, []Value{row}, cb.Clo, site+".row")
	var outs []*State
	var errs []*Term
	early := Fresh("cb_early", "Bool")
	if it.pc != False {
		cont := it.clone()
		cont.pc = And(it.pc, Eq(Acc(r.T, 0), Int(0)))
		if cont.pc != False {
			cont.setG("cbRows", Add(cnt, Int(1)))
			for i, c := range invs {
				x.oblige(cont, "inv", invName(i, c), "step", evalInv(cont, c), "every row preserves the ResultFunc invariant")
			}
			for _, wk := range sortedKeys(wset.keys) {
				if g := x.frameInv(fr, cont, wk); g != nil {
					x.oblige(cont, "inv", fmt.Sprintf("cb%d.frame(%s)", n, wk), "step", g, "implicit frame of the ResultFunc loop")
				}
			}
		}
		stop := it
		stop.pc = And(it.pc, Not(Eq(Acc(r.T, 0), Int(0))), early)
		if stop.pc != False {
			e := x.freshVal(stop, "execerr", errT)
			x.assume(stop, Not(Eq(Acc(e.T, 0), Int(0))))
			outs = append(outs, stop)
			errs = append(errs, e.T)
		}
	}
	ex := st.clone()
	x.havocWriteSet(fr, ex, wset, "cbx")
	cnt2 := Fresh("cbrows", "Int")
	x.assumePC(ex, Ge(cnt2, Int(0)))
	ex.setG("cbRows", cnt2)
	assumeInv(ex)
	ex.pc = And(ex.pc, Not(early))
	if ex.pc != False {
		e := x.freshVal(ex, "execerr", errT)
		outs = append(outs, ex)
		errs = append(errs, e.T)
	}
	if len(outs) == 0 {
		st.pc = False
		return x.zeroValue(sig.Results())
	}
	m := mergeStates(outs)
	val := errs[len(errs)-1]
	for i := len(errs) - 2; i >= 0; i-- {
		val = Ite(outs[i].pc, errs[i], val)
	}
	*st = *m.clone()
	return Value{T: val}
}

// sqlColumnsCheck: for every INSERT constant of the sqlite package the i-th column is written by the parameter of the same
// name ($col), and every SELECT ... FROM <table> constant only names columns that the table's INSERT writes and selects its
// rows by `WHERE id = $id` or by `WHERE id IN $ids ORDER BY pos ASC`. Returns the
// problems found (reported as failed obligations by the check driver).
func sqlColumnsCheck(w *World) []string {
	var out []string
	var pkgPath string
	for path := range w.Pkgs {
		if strings.HasSuffix(path, "/workflow/storage/sqlite") && isRepoPkg(path) {
			pkgPath = path
		}
	}
	if pkgPath == "" {
		return nil
	}
	p := w.Pkgs[pkgPath].Types
	insRe := regexp.MustCompile(`(?is)^\s*insert\s+into\s+(\w+)\s*\(([^)]*)\)\s*values\s*\(([^)]*)\)\s*$`)
	selRe := regexp.MustCompile(`(?is)^\s*select\s+(.*?)\s+from\s+(\w+)\b`)
	updRe := regexp.MustCompile(`(?is)^\s*update\s+(\w+)\s+set\s+(.*?)\s+where\s+(.*)$`)
	cols := map[string]map[string]bool{}
	names := p.Scope().Names()
	sort.Strings(names)
	var consts [][2]string
	for _, n := range names {
		if c, ok := p.Scope().Lookup(n).(*types.Const); ok && c.Val().Kind() == constant.String {
			consts = append(consts, [2]string{n, constant.StringVal(c.Val())})
		}
	}
	split := func(s string) []string {
		var fs []string
		for _, f := range strings.Split(s, ",") {
			fs = append(fs, strings.TrimSpace(f))
		}
		return fs
	}
	for _, c := range consts {
		if m := insRe.FindStringSubmatch(c[1]); m != nil {
			cs, ps := split(m[2]), split(m[3])
			if len(cs) != len(ps) {
				out = append(out, fmt.Sprintf("%s: %d columns but %d values", c[0], len(cs), len(ps)))
				continue
			}
			t := strings.ToLower(m[1])
			if cols[t] == nil {
				cols[t] = map[string]bool{}
			}
			for i := range cs {
				if ps[i] != "$"+cs[i] {
					out = append(out, fmt.Sprintf("%s: column %s is written by parameter %s (expected $%s)", c[0], cs[i], ps[i], cs[i]))
				}
				cols[t][cs[i]] = true
			}
		}
	}
	for _, c := range consts {
		if m := updRe.FindStringSubmatch(c[1]); m != nil {
			t := strings.ToLower(m[1])
			for _, a := range split(m[2]) {
				kv := strings.SplitN(a, "=", 2)
				if len(kv) != 2 {
					out = append(out, fmt.Sprintf("%s: cannot read assignment %q", c[0], a))
					continue
				}
				col, prm := strings.TrimSpace(kv[0]), strings.TrimSpace(kv[1])
				if prm != "$"+col {
					out = append(out, fmt.Sprintf("%s: column %s is set from %s (expected $%s)", c[0], col, prm, col))
				}
				if cols[t] != nil && !cols[t][col] {
					out = append(out, fmt.Sprintf("%s: column %s is not written by the INSERT into %s", c[0], col, t))
				}
			}
			if strings.TrimSpace(strings.ToLower(m[3])) != "id = $id" {
				out = append(out, fmt.Sprintf("%s: WHERE clause %q is not `id = $id`", c[0], strings.TrimSpace(m[3])))
			}
			continue
		}
		if m := selRe.FindStringSubmatch(c[1]); m != nil {
			t := strings.ToLower(m[2])
			if cols[t] == nil {
				continue
			}
			// the rows a fetch statement returns: the SQL rule reads `WHERE id = $id` as "the rows with that id" and
			// `WHERE id IN $ids ORDER BY pos ASC` as "the rows of the id list in declared (position) order" - the text
			// after the table name must be exactly one of the two, or the rule does not describe the statement
			tail := strings.ToLower(strings.Join(strings.Fields(c[1][len(m[0]):]), " "))
			if tail != "where id = $id" && tail != "where id in $ids order by pos asc" {
				out = append(out, fmt.Sprintf("%s: rows are selected by %q, which is neither `WHERE id = $id` nor `WHERE id IN $ids ORDER BY pos ASC` (children are read back in declared order only when sorted by the position column)", c[0], tail))
			}
			for _, col := range split(m[1]) {
				if strings.ContainsAny(col, "(* ") {
					continue
				}
				if !cols[t][col] {
					out = append(out, fmt.Sprintf("%s: selects column %s which the INSERT into %s does not write", c[0], col, t))
				}
			}
		}
	}
	return out
}

// cosmosTagsCheck: the patch paths used by the Cosmos DB updaters name the JSON fields of the entry structs that the
// readers decode: "/stateStatus" must be the json tag of field StateStatus of the object's entry type, and so on (the
// contracts pin path literal -> object field; this pins path literal -> entry field; the readers' contracts pin entry field
// -> object field). Checked on the struct tags on every run.
func cosmosTagsCheck(w *World) []string {
	var pkgPath string
	for path := range w.Pkgs {
		if strings.HasSuffix(path, "/workflow/storage/cosmosdb") && isRepoPkg(path) {
			pkgPath = path
		}
	}
	if pkgPath == "" {
		return nil
	}
	p := w.Pkgs[pkgPath].Types
	want := map[string]map[string]string{ // entry type -> json name -> field
		"plansEntry":     {"stateStatus": "StateStatus", "stateStart": "StateStart", "stateEnd": "StateEnd", "reason": "Reason", "submitTime": "SubmitTime"},
		"blocksEntry":    {"stateStatus": "StateStatus", "stateStart": "StateStart", "stateEnd": "StateEnd"},
		"checksEntry":    {"stateStatus": "StateStatus", "stateStart": "StateStart", "stateEnd": "StateEnd"},
		"sequencesEntry": {"stateStatus": "StateStatus", "stateStart": "StateStart", "stateEnd": "StateEnd"},
		"actionsEntry":   {"stateStatus": "StateStatus", "stateStart": "StateStart", "stateEnd": "StateEnd", "attempts": "Attempts"},
	}
	var out []string
	var tns []string
	for tn := range want {
		tns = append(tns, tn)
	}
	sort.Strings(tns)
	tagRe := regexp.MustCompile(`json:"([^",]*)`)
	for _, tn := range tns {
		obj := p.Scope().Lookup(tn)
		if obj == nil {
			out = append(out, "entry type "+tn+" not found")
			continue
		}
		su, ok := obj.Type().Underlying().(*types.Struct)
		if !ok {
			out = append(out, tn+" is not a struct")
			continue
		}
		byTag := map[string]string{}
		for i := 0; i < su.NumFields(); i++ {
			if m := tagRe.FindStringSubmatch(su.Tag(i)); m != nil {
				byTag[m[1]] = su.Field(i).Name()
			}
		}
		var js []string
		for j := range want[tn] {
			js = append(js, j)
		}
		sort.Strings(js)
		for _, j := range js {
			if byTag[j] != want[tn][j] {
				out = append(out, fmt.Sprintf("%s: patch path /%s should address field %s, but the json tag %q belongs to field %q", tn, j, want[tn][j], j, byTag[j]))
			}
		}
	}
	return out
}
