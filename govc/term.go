package main

// Hash-consed SMT terms with light simplification and an SMT-LIB2 printer that
// shares common subterms through define-fun.

import (
	"fmt"
	"hash/fnv"
	"math/big"
	"sort"
	"strconv"
	"strings"
)

type Term struct {
	Op    string
	Args  []*Term
	Sort  string
	Bound []*Term   // quantifier: bound variables
	Pats  [][]*Term // quantifier: patterns
	id    int
	kind  termKind
	hasBV bool // has a free bound variable (cannot be hoisted)
	hasQ  bool // contains a quantifier
	fbv   []*Term
}

type termKind int

const (
	kApp   termKind = iota
	kConst          // declared 0-ary symbol
	kLit            // literal
	kBoundVar
	kQuant
)

var (
	termTab   = map[string]*Term{}
	termCount int
)

func intern(t *Term) *Term {
	var sb strings.Builder
	sb.WriteString(t.Op)
	sb.WriteByte('|')
	sb.WriteString(t.Sort)
	for _, a := range t.Args {
		sb.WriteByte(',')
		sb.WriteString(strconv.Itoa(a.id))
	}
	if t.kind == kQuant {
		sb.WriteString("|Q")
		for _, b := range t.Bound {
			sb.WriteByte(',')
			sb.WriteString(strconv.Itoa(b.id))
		}
		for _, p := range t.Pats {
			sb.WriteByte(';')
			for _, x := range p {
				sb.WriteByte(',')
				sb.WriteString(strconv.Itoa(x.id))
			}
		}
	}
	sb.WriteString("|" + strconv.Itoa(int(t.kind)))
	k := sb.String()
	if o, ok := termTab[k]; ok {
		return o
	}
	termCount++
	t.id = termCount
	fv := map[*Term]bool{}
	for _, a := range t.Args {
		for _, v := range a.fbv {
			fv[v] = true
		}
		if a.hasQ {
			t.hasQ = true
		}
	}
	for _, p := range t.Pats {
		for _, x := range p {
			for _, v := range x.fbv {
				fv[v] = true
			}
		}
	}
	if t.kind == kBoundVar {
		fv[t] = true
	}
	if t.kind == kQuant {
		t.hasQ = true
		for _, b := range t.Bound {
			delete(fv, b)
		}
	}
	for v := range fv {
		t.fbv = append(t.fbv, v)
	}
	sort.Slice(t.fbv, func(i, j int) bool { return t.fbv[i].id < t.fbv[j].id })
	t.hasBV = len(t.fbv) > 0
	termTab[k] = t
	return t
}

var (
	True  = intern(&Term{Op: "true", Sort: "Bool", kind: kLit})
	False = intern(&Term{Op: "false", Sort: "Bool", kind: kLit})
)

func Int(n int64) *Term {
	return intern(&Term{Op: strconv.FormatInt(n, 10), Sort: "Int", kind: kLit})
}
func IntBig(n *big.Int) *Term { return intern(&Term{Op: n.String(), Sort: "Int", kind: kLit}) }
func BoolT(b bool) *Term {
	if b {
		return True
	}
	return False
}

// symbol registry: every declared constant / function symbol.
type symDecl struct {
	name   string
	params []string
	sort   string
}

var symTab = map[string]*symDecl{}
var symOrder []string

func declare(name string, params []string, sort string) {
	if d, ok := symTab[name]; ok {
		if d.sort != sort || len(d.params) != len(params) {
			panic(fmt.Sprintf("symbol %s redeclared with different signature (%v %s vs %v %s)", name, d.params, d.sort, params, sort))
		}
		return
	}
	symTab[name] = &symDecl{name, params, sort}
	symOrder = append(symOrder, name)
}

func Const(name, sort string) *Term {
	declare(name, nil, sort)
	return intern(&Term{Op: name, Sort: sort, kind: kConst})
}

var freshCtr = map[string]int{}

func smtName(s string) string {
	var sb strings.Builder
	for _, r := range s {
		switch {
		case r >= 'a' && r <= 'z', r >= 'A' && r <= 'Z', r >= '0' && r <= '9', r == '_', r == '.', r == '!', r == '$', r == '#', r == '@':
			sb.WriteRune(r)
		default:
			sb.WriteByte('_')
		}
	}
	return sb.String()
}

func Fresh(prefix, sort string) *Term {
	prefix = smtName(prefix)
	freshCtr[prefix]++
	return Const(fmt.Sprintf("%s!%d", prefix, freshCtr[prefix]), sort)
}

func BoundVar(name, sort string) *Term {
	return intern(&Term{Op: name, Sort: sort, kind: kBoundVar})
}

// App of a declared (uninterpreted or datatype) function symbol.
func App(name string, sort string, args ...*Term) *Term {
	return intern(&Term{Op: name, Sort: sort, Args: args, kind: kApp})
}

func UF(name string, sort string, args ...*Term) *Term {
	ps := make([]string, len(args))
	for i, a := range args {
		ps[i] = a.Sort
	}
	declare(name, ps, sort)
	return App(name, sort, args...)
}

func isLitInt(t *Term) (*big.Int, bool) {
	if t.kind != kLit || t.Sort != "Int" {
		return nil, false
	}
	n, ok := new(big.Int).SetString(t.Op, 10)
	return n, ok
}

func Not(a *Term) *Term {
	switch {
	case a == True:
		return False
	case a == False:
		return True
	case a.Op == "not" && a.kind == kApp:
		return a.Args[0]
	}
	return App("not", "Bool", a)
}

func conjuncts(t *Term) []*Term {
	if t.kind == kApp && t.Op == "and" {
		return t.Args
	}
	if t == True {
		return nil
	}
	return []*Term{t}
}

func And(as ...*Term) *Term {
	var out []*Term
	seen := map[int]bool{}
	for _, a := range as {
		for _, c := range conjuncts(a) {
			if c == False {
				return False
			}
			if seen[c.id] {
				continue
			}
			seen[c.id] = true
			out = append(out, c)
		}
	}
	for _, c := range out {
		if c.Op == "not" && c.kind == kApp && seen[c.Args[0].id] {
			return False
		}
	}
	switch len(out) {
	case 0:
		return True
	case 1:
		return out[0]
	}
	return App("and", "Bool", out...)
}

func Or(as ...*Term) *Term {
	var out []*Term
	seen := map[int]bool{}
	for _, a := range as {
		var ds []*Term
		if a.kind == kApp && a.Op == "or" {
			ds = a.Args
		} else {
			ds = []*Term{a}
		}
		for _, d := range ds {
			if d == True {
				return True
			}
			if d == False || seen[d.id] {
				continue
			}
			seen[d.id] = true
			out = append(out, d)
		}
	}
	for _, d := range out {
		if d.Op == "not" && d.kind == kApp && seen[d.Args[0].id] {
			return True
		}
	}
	switch len(out) {
	case 0:
		return False
	case 1:
		return out[0]
	}
	// factor common conjuncts: (P & a) | (P & b) = P & (a | b)
	common := map[int]*Term{}
	for _, c := range conjuncts(out[0]) {
		common[c.id] = c
	}
	for _, d := range out[1:] {
		here := map[int]bool{}
		for _, c := range conjuncts(d) {
			here[c.id] = true
		}
		for id := range common {
			if !here[id] {
				delete(common, id)
			}
		}
		if len(common) == 0 {
			break
		}
	}
	if len(common) > 0 {
		var rest []*Term
		for _, d := range out {
			var keep []*Term
			for _, c := range conjuncts(d) {
				if _, ok := common[c.id]; !ok {
					keep = append(keep, c)
				}
			}
			rest = append(rest, And(keep...))
		}
		var cs []*Term
		for _, c := range conjuncts(out[0]) {
			if _, ok := common[c.id]; ok {
				cs = append(cs, c)
			}
		}
		cs = append(cs, Or(rest...))
		return And(cs...)
	}
	return App("or", "Bool", out...)
}

func Implies(a, b *Term) *Term {
	if a == True {
		return b
	}
	if a == False || b == True {
		return True
	}
	if b == False {
		return Not(a)
	}
	return App("=>", "Bool", a, b)
}

func Eq(a, b *Term) *Term {
	if a == b {
		return True
	}
	if a.Sort != b.Sort {
		panic(fmt.Sprintf("Eq: sort mismatch %s vs %s (%s = %s)", a.Sort, b.Sort, a, b))
	}
	if a.kind == kLit && b.kind == kLit {
		return False
	}
	// ite(c, x, y) == lit with literal branches
	for k := 0; k < 2; k++ {
		it, lit := a, b
		if k == 1 {
			it, lit = b, a
		}
		if lit.kind == kLit && it.kind == kApp && it.Op == "ite" {
			x, y := it.Args[1], it.Args[2]
			if (x.kind == kLit || (x.kind == kApp && x.Op == "ite")) && (y.kind == kLit || (y.kind == kApp && y.Op == "ite")) {
				return Ite(it.Args[0], Eq(x, lit), Eq(y, lit))
			}
		}
	}
	if a.Sort == "Bool" {
		if a == True {
			return b
		}
		if b == True {
			return a
		}
		if a == False {
			return Not(b)
		}
		if b == False {
			return Not(a)
		}
	}
	// constructor applications with the same head: compare componentwise
	if a.kind == kApp && b.kind == kApp && a.Op == b.Op && isCtor(a.Op) && len(a.Args) == len(b.Args) {
		var cs []*Term
		for i := range a.Args {
			cs = append(cs, Eq(a.Args[i], b.Args[i]))
		}
		return And(cs...)
	}
	if a.id > b.id {
		a, b = b, a
	}
	return App("=", "Bool", a, b)
}

func Ite(c, a, b *Term) *Term {
	if c == True {
		return a
	}
	if c == False {
		return b
	}
	if a == b {
		return a
	}
	if a.Sort != b.Sort {
		panic(fmt.Sprintf("Ite: sort mismatch %s vs %s", a.Sort, b.Sort))
	}
	if a.Sort == "Bool" {
		if a == True && b == False {
			return c
		}
		if a == False && b == True {
			return Not(c)
		}
	}
	return App("ite", a.Sort, c, a, b)
}

func arith(op string, a, b *Term) *Term {
	x, okx := isLitInt(a)
	y, oky := isLitInt(b)
	if okx && oky {
		r := new(big.Int)
		switch op {
		case "+":
			return IntBig(r.Add(x, y))
		case "-":
			return IntBig(r.Sub(x, y))
		case "*":
			return IntBig(r.Mul(x, y))
		}
	}
	if op == "+" {
		if okx && x.Sign() == 0 {
			return b
		}
		if oky && y.Sign() == 0 {
			return a
		}
		// (x + c1) + c2
		if oky && a.kind == kApp && a.Op == "+" && len(a.Args) == 2 {
			if z, ok := isLitInt(a.Args[1]); ok {
				return arith("+", a.Args[0], IntBig(new(big.Int).Add(z, y)))
			}
		}
	}
	if op == "-" {
		if oky && y.Sign() == 0 {
			return a
		}
		if oky {
			return arith("+", a, IntBig(new(big.Int).Neg(y)))
		}
		if a == b {
			return Int(0)
		}
	}
	if op == "*" {
		if okx && x.Cmp(big.NewInt(1)) == 0 {
			return b
		}
		if oky && y.Cmp(big.NewInt(1)) == 0 {
			return a
		}
	}
	return App(op, "Int", a, b)
}

func Add(a, b *Term) *Term { return arith("+", a, b) }
func Sub(a, b *Term) *Term { return arith("-", a, b) }
func Mul(a, b *Term) *Term { return arith("*", a, b) }
func Neg(a *Term) *Term    { return arith("-", Int(0), a) }

func cmp(op string, a, b *Term) *Term {
	x, okx := isLitInt(a)
	y, oky := isLitInt(b)
	if okx && oky {
		c := x.Cmp(y)
		switch op {
		case "<":
			return BoolT(c < 0)
		case "<=":
			return BoolT(c <= 0)
		case ">":
			return BoolT(c > 0)
		case ">=":
			return BoolT(c >= 0)
		}
	}
	if a == b {
		return BoolT(op == "<=" || op == ">=")
	}
	// normalise to < and <=
	switch op {
	case ">":
		return App("<", "Bool", b, a)
	case ">=":
		return App("<=", "Bool", b, a)
	}
	return App(op, "Bool", a, b)
}

func Lt(a, b *Term) *Term { return cmp("<", a, b) }
func Le(a, b *Term) *Term { return cmp("<=", a, b) }
func Gt(a, b *Term) *Term { return cmp(">", a, b) }
func Ge(a, b *Term) *Term { return cmp(">=", a, b) }

func arraySort(idx, elem string) string { return "(Array " + idx + " " + elem + ")" }

// elemSortOf returns the element sort of "(Array I E)".
func elemSortOf(arr string) string {
	if !strings.HasPrefix(arr, "(Array ") {
		panic("not an array sort: " + arr)
	}
	s := arr[len("(Array ") : len(arr)-1]
	// index sort is first token or parenthesised
	depth := 0
	for i, c := range s {
		switch c {
		case '(':
			depth++
		case ')':
			depth--
		case ' ':
			if depth == 0 {
				return s[i+1:]
			}
		}
	}
	panic("bad array sort " + arr)
}

func Select(a, i *Term) *Term {
	es := elemSortOf(a.Sort)
	for a.kind == kApp && a.Op == "store" {
		j := a.Args[1]
		if j == i {
			return a.Args[2]
		}
		if j.kind == kLit && i.kind == kLit {
			a = a.Args[0]
			continue
		}
		break
	}
	if a.kind == kApp && a.Op == "const-array" {
		return a.Args[0]
	}
	return App("select", es, a, i)
}

func Store(a, i, v *Term) *Term {
	if es := elemSortOf(a.Sort); es != v.Sort {
		panic(fmt.Sprintf("Store: elem sort %s vs value sort %s", es, v.Sort))
	}
	if a.kind == kApp && a.Op == "store" && a.Args[1] == i {
		a = a.Args[0]
	}
	return App("store", a.Sort, a, i, v)
}

// ConstArray: the array holding v everywhere. cvc5 accepts `(as const ...)` only for syntactic values, so for a default that
// is a constant of an uninterpreted sort (uuid_nil) a named array constant with a defining axiom is used instead.
var namedConstArrays = map[string][2]*Term{}

func ConstArray(sort string, v *Term) *Term {
	if !isSyntacticValue(v) {
		h := fnv.New32a()
		h.Write([]byte(v.String()))
		name := "constarr_" + strings.NewReplacer("(", "", ")", "", " ", "_").Replace(sort) + "_" + fmt.Sprintf("%08x", h.Sum32())
		c := Const(name, sort)
		namedConstArrays[name] = [2]*Term{c, v}
		return c
	}
	return App("const-array", sort, v)
}

// isSyntacticValue: numerals, booleans and constructor applications of such - what cvc5 accepts as the default of a const array.
func isSyntacticValue(v *Term) bool {
	if len(v.Args) == 0 {
		if v.Op == "true" || v.Op == "false" {
			return true
		}
		if v.Sort == "Int" {
			for i, c := range v.Op {
				if !(c >= '0' && c <= '9') && !(i == 0 && c == '-') {
					return false
				}
			}
			return v.Op != ""
		}
		return false
	}
	if strings.HasPrefix(v.Op, "mk_") || v.Op == "-" {
		for _, a := range v.Args {
			if !isSyntacticValue(a) {
				return false
			}
		}
		return true
	}
	if v.Op == "const-array" {
		return isSyntacticValue(v.Args[0])
	}
	return false
}

func constArrayAxioms() []*Term {
	var names []string
	for n := range namedConstArrays {
		names = append(names, n)
	}
	sort.Strings(names)
	var out []*Term
	for _, n := range names {
		cv := namedConstArrays[n]
		i := BoundVar("q_ca", "Int")
		out = append(out, Forall([]*Term{i}, [][]*Term{{Select(cv[0], i)}}, Eq(Select(cv[0], i), cv[1])))
	}
	return out
}

// datatypes ------------------------------------------------------------------

type dtDecl struct {
	sort   string
	ctor   string
	fields []string // accessor names
	fsorts []string
}

var dtTab = map[string]*dtDecl{} // by sort
var ctorTab = map[string]*dtDecl{}
var accTab = map[string]int{} // accessor -> index
var accDT = map[string]*dtDecl{}
var dtOrder []string

func isCtor(op string) bool { _, ok := ctorTab[op]; return ok }

func declareDT(sort string, fields []string, fsorts []string) *dtDecl {
	if d, ok := dtTab[sort]; ok {
		return d
	}
	d := &dtDecl{sort: sort, ctor: "mk_" + sort}
	for i, f := range fields {
		d.fields = append(d.fields, sort+"_"+smtName(f))
		d.fsorts = append(d.fsorts, fsorts[i])
	}
	dtTab[sort] = d
	ctorTab[d.ctor] = d
	for i, a := range d.fields {
		accTab[a] = i
		accDT[a] = d
	}
	dtOrder = append(dtOrder, sort)
	return d
}

func Mk(sort string, args ...*Term) *Term {
	d := dtTab[sort]
	if d == nil {
		panic("unknown datatype " + sort)
	}
	if len(args) != len(d.fields) {
		panic("ctor arity " + sort)
	}
	for i, a := range args {
		if a.Sort != d.fsorts[i] {
			panic(fmt.Sprintf("ctor %s arg %d: sort %s want %s", sort, i, a.Sort, d.fsorts[i]))
		}
	}
	// eta: mk(acc0(x), acc1(x), ...) = x
	if len(args) > 0 && args[0].kind == kApp && args[0].Op == d.fields[0] {
		x := args[0].Args[0]
		ok := true
		for i, a := range args {
			if !(a.kind == kApp && a.Op == d.fields[i] && a.Args[0] == x) {
				ok = false
				break
			}
		}
		if ok {
			return x
		}
	}
	return App(d.ctor, sort, args...)
}

func Acc(x *Term, i int) *Term {
	d := dtTab[x.Sort]
	if d == nil {
		panic("Acc on non-datatype sort " + x.Sort)
	}
	if x.kind == kApp && x.Op == d.ctor {
		return x.Args[i]
	}
	if x.kind == kApp && x.Op == "ite" {
		// push accessor through ite when a branch is a constructor
		a, b := x.Args[1], x.Args[2]
		if (a.kind == kApp && a.Op == d.ctor) || (b.kind == kApp && b.Op == d.ctor) {
			return Ite(x.Args[0], Acc(a, i), Acc(b, i))
		}
	}
	return App(d.fields[i], d.fsorts[i], x)
}

func Upd(x *Term, i int, v *Term) *Term {
	d := dtTab[x.Sort]
	args := make([]*Term, len(d.fields))
	for j := range args {
		if j == i {
			args[j] = v
		} else {
			args[j] = Acc(x, j)
		}
	}
	return Mk(x.Sort, args...)
}

func Forall(bound []*Term, pats [][]*Term, body *Term) *Term {
	if body == True {
		return True
	}
	return intern(&Term{Op: "forall", Sort: "Bool", Args: []*Term{body}, Bound: bound, Pats: pats, kind: kQuant})
}
func Exists(bound []*Term, body *Term) *Term {
	if body == False {
		return False
	}
	return intern(&Term{Op: "exists", Sort: "Bool", Args: []*Term{body}, Bound: bound, kind: kQuant})
}

// substitution ------------------------------------------------------------

func Subst(t *Term, m map[*Term]*Term) *Term {
	cache := map[*Term]*Term{}
	var rec func(t *Term) *Term
	rec = func(t *Term) *Term {
		if r, ok := m[t]; ok {
			return r
		}
		if len(t.Args) == 0 {
			return t
		}
		if r, ok := cache[t]; ok {
			return r
		}
		args := make([]*Term, len(t.Args))
		ch := false
		for i, a := range t.Args {
			args[i] = rec(a)
			if args[i] != a {
				ch = true
			}
		}
		var r *Term
		if !ch {
			r = t
		} else {
			r = rebuild(t, args)
		}
		cache[t] = r
		return r
	}
	return rec(t)
}

func rebuild(t *Term, args []*Term) *Term {
	if t.kind == kQuant {
		var pats [][]*Term
		// patterns are substituted by caller when needed; keep as is (they mention bound vars + free symbols)
		pats = t.Pats
		return intern(&Term{Op: t.Op, Sort: t.Sort, Args: args, Bound: t.Bound, Pats: pats, kind: kQuant})
	}
	switch t.Op {
	case "and":
		return And(args...)
	case "or":
		return Or(args...)
	case "not":
		return Not(args[0])
	case "=>":
		return Implies(args[0], args[1])
	case "=":
		return Eq(args[0], args[1])
	case "ite":
		return Ite(args[0], args[1], args[2])
	case "+", "-", "*":
		if len(args) == 2 {
			return arith(t.Op, args[0], args[1])
		}
	case "<", "<=":
		return cmp(t.Op, args[0], args[1])
	case "select":
		return Select(args[0], args[1])
	case "store":
		return Store(args[0], args[1], args[2])
	}
	if i, ok := accTab[t.Op]; ok && t.kind == kApp {
		return Acc(args[0], i)
	}
	if d, ok := ctorTab[t.Op]; ok && t.kind == kApp {
		return Mk(d.sort, args...)
	}
	return intern(&Term{Op: t.Op, Sort: t.Sort, Args: args, kind: t.kind})
}

// printing ------------------------------------------------------------------

func (t *Term) String() string {
	var sb strings.Builder
	printTerm(&sb, t, nil)
	return sb.String()
}

func litString(t *Term) string {
	if t.Sort == "Int" && strings.HasPrefix(t.Op, "-") {
		return "(- " + t.Op[1:] + ")"
	}
	return t.Op
}

func printTerm(sb *strings.Builder, t *Term, names map[*Term]string) {
	if n, ok := names[t]; ok {
		sb.WriteString(n)
		return
	}
	switch t.kind {
	case kLit:
		sb.WriteString(litString(t))
		return
	case kConst, kBoundVar:
		sb.WriteString(t.Op)
		return
	case kQuant:
		sb.WriteString("(" + t.Op + " (")
		for _, b := range t.Bound {
			sb.WriteString("(" + b.Op + " " + b.Sort + ")")
		}
		sb.WriteString(") ")
		if len(t.Pats) > 0 {
			sb.WriteString("(! ")
		}
		printTerm(sb, t.Args[0], names)
		if len(t.Pats) > 0 {
			for _, p := range t.Pats {
				sb.WriteString(" :pattern (")
				for i, x := range p {
					if i > 0 {
						sb.WriteByte(' ')
					}
					printTerm(sb, x, names)
				}
				sb.WriteString(")")
			}
			sb.WriteString(")")
		}
		sb.WriteString(")")
		return
	}
	if t.Op == "const-array" {
		sb.WriteString("((as const " + t.Sort + ") ")
		printTerm(sb, t.Args[0], nil) // cvc5 wants a syntactic value here: never a let-name
		sb.WriteString(")")
		return
	}
	if len(t.Args) == 0 {
		sb.WriteString(t.Op)
		return
	}
	sb.WriteString("(" + t.Op)
	for _, a := range t.Args {
		sb.WriteByte(' ')
		printTerm(sb, a, names)
	}
	sb.WriteString(")")
}

// VC is a set of assertions to be checked for unsatisfiability.
type VC struct {
	Name    string
	Asserts []*Term
	Goal    *Term // the negated goal is asserted last
}

// sortDeps returns datatype sorts mentioned inside a sort string.
func sortDeps(s string) []string {
	var out []string
	f := strings.FieldsFunc(s, func(r rune) bool { return r == '(' || r == ')' || r == ' ' })
	for _, x := range f {
		if _, ok := dtTab[x]; ok {
			out = append(out, x)
		}
	}
	return out
}

var uninterpSorts = map[string]bool{}

func declareSort(s string) { uninterpSorts[s] = true }

func usedUninterp(s string, acc map[string]bool) {
	f := strings.FieldsFunc(s, func(r rune) bool { return r == '(' || r == ')' || r == ' ' })
	for _, x := range f {
		if uninterpSorts[x] {
			acc[x] = true
		}
	}
}

// Print renders the VC as an SMT-LIB2 script. Axioms whose trigger symbols
// appear are added by the caller into Asserts.
func (vc *VC) Print(logic string, getModel bool) string {
	all := append([]*Term{}, vc.Asserts...)
	if vc.Goal != nil {
		all = append(all, Not(vc.Goal))
	}
	// collect reachable terms, refcounts
	ref := map[*Term]int{}
	var order []*Term
	var visit func(t *Term)
	visit = func(t *Term) {
		ref[t]++
		if ref[t] > 1 {
			return
		}
		for _, a := range t.Args {
			visit(a)
		}
		for _, p := range t.Pats {
			for _, x := range p {
				visit(x)
			}
		}
		order = append(order, t) // post-order
	}
	for _, a := range all {
		visit(a)
	}
	usedSyms := map[string]bool{}
	usedSorts := map[string]bool{}
	usedU := map[string]bool{}
	var addSort func(s string)
	addSort = func(s string) {
		usedUninterp(s, usedU)
		for _, d := range sortDeps(s) {
			if !usedSorts[d] {
				usedSorts[d] = true
				for _, fs := range dtTab[d].fsorts {
					addSort(fs)
				}
			}
		}
	}
	for _, t := range order {
		addSort(t.Sort)
		for _, b := range t.Bound {
			addSort(b.Sort)
		}
		if t.kind == kConst || (t.kind == kApp && symTab[t.Op] != nil) {
			if d := symTab[t.Op]; d != nil {
				usedSyms[t.Op] = true
				addSort(d.sort)
				for _, p := range d.params {
					addSort(p)
				}
			}
		}
	}
	var sb strings.Builder
	if getModel {
		sb.WriteString("(set-option :produce-models true)\n")
	}
	sb.WriteString("(set-logic " + logic + ")\n")
	var us []string
	for s := range usedU {
		us = append(us, s)
	}
	sort.Strings(us)
	for _, s := range us {
		sb.WriteString("(declare-sort " + s + " 0)\n")
	}
	// datatypes in registration order (dependencies are registered first)
	for _, s := range dtOrder {
		if !usedSorts[s] {
			continue
		}
		d := dtTab[s]
		sb.WriteString("(declare-datatypes ((" + s + " 0)) (((" + d.ctor)
		for i, f := range d.fields {
			sb.WriteString(" (" + f + " " + d.fsorts[i] + ")")
		}
		sb.WriteString("))))\n")
	}
	for _, n := range symOrder {
		if !usedSyms[n] {
			continue
		}
		d := symTab[n]
		sb.WriteString("(declare-fun " + n + " (" + strings.Join(d.params, " ") + ") " + d.sort + ")\n")
	}
	// shared subterms
	names := map[*Term]string{}
	for _, t := range order {
		if ref[t] > 1 && len(t.Args) > 0 && !t.hasBV && t.kind != kLit {
			var b strings.Builder
			printTerm(&b, t, names)
			n := "t!" + strconv.Itoa(t.id)
			sb.WriteString("(define-fun " + n + " () " + t.Sort + " " + b.String() + ")\n")
			names[t] = n
		}
	}
	for i, a := range all {
		var b strings.Builder
		printTerm(&b, a, names)
		if vc.Goal != nil && i == len(all)-1 {
			sb.WriteString("; negated goal\n")
		}
		sb.WriteString("(assert " + b.String() + ")\n")
	}
	sb.WriteString("(check-sat)\n")
	if getModel {
		sb.WriteString("(get-model)\n")
	}
	return sb.String()
}
