package main

// Lexer and parser for the contract language. Contracts live in /*@ ... @*/
// block comments of comment-only Go files (build tag verif) and in *.spec files.

import (
	"fmt"
	"os"
	"strings"
	"unicode"
)

type Expr struct {
	Kind string // id int str bool nil un bin call field index slice quant cond set type
	Name string
	Args []*Expr
	Vars []QVar
	Pats [][]*Expr
	Line int
	File string
}

type QVar struct {
	Name string
	Sort string // SMT sort text; "" = Int
}

func (e *Expr) String() string {
	switch e.Kind {
	case "id", "int", "bool", "nil":
		return e.Name
	case "str":
		return fmt.Sprintf("%q", e.Name)
	case "type":
		return e.Name
	case "un":
		return e.Name + e.Args[0].String()
	case "bin":
		return "(" + e.Args[0].String() + " " + e.Name + " " + e.Args[1].String() + ")"
	case "call":
		var as []string
		for _, a := range e.Args {
			as = append(as, a.String())
		}
		return e.Name + "(" + strings.Join(as, ", ") + ")"
	case "field":
		return e.Args[0].String() + "." + e.Name
	case "index":
		return e.Args[0].String() + "[" + e.Args[1].String() + "]"
	case "slice":
		s := e.Args[0].String() + "["
		if e.Args[1] != nil {
			s += e.Args[1].String()
		}
		s += ":"
		if e.Args[2] != nil {
			s += e.Args[2].String()
		}
		return s + "]"
	case "quant":
		var vs []string
		for _, v := range e.Vars {
			vs = append(vs, v.Name)
		}
		return "(" + e.Name + " " + strings.Join(vs, ",") + " :: " + e.Args[0].String() + ")"
	case "cond":
		return "(" + e.Args[0].String() + " ? " + e.Args[1].String() + " : " + e.Args[2].String() + ")"
	case "set":
		var as []string
		for _, a := range e.Args[1:] {
			as = append(as, a.String())
		}
		return e.Args[0].String() + " " + e.Name + " {" + strings.Join(as, ", ") + "}"
	}
	return "?" + e.Kind
}

type stok struct {
	kind string // id int str op eof
	text string
	line int
	bol  bool // first stok on its line
}

func lex(src string, file string, line0 int) ([]stok, error) {
	var toks []stok
	line := line0
	bol := true
	i := 0
	n := len(src)
	ops3 := []string{"<==>", "==>", "...", "::", "==", "!=", "<=", ">=", "&&", "||", ":=", "++"}
	for i < n {
		c := src[i]
		switch {
		case c == '\n':
			line++
			bol = true
			i++
			continue
		case c == ' ' || c == '\t' || c == '\r':
			i++
			continue
		case c == '/' && i+1 < n && src[i+1] == '/':
			for i < n && src[i] != '\n' {
				i++
			}
			continue
		case unicode.IsLetter(rune(c)) || c == '_' || c == '$':
			j := i
			for j < n && (unicode.IsLetter(rune(src[j])) || unicode.IsDigit(rune(src[j])) || src[j] == '_' || src[j] == '$') {
				j++
			}
			toks = append(toks, stok{"id", src[i:j], line, bol})
			i = j
		case unicode.IsDigit(rune(c)):
			j := i
			for j < n && (unicode.IsDigit(rune(src[j])) || src[j] == '_') {
				j++
			}
			toks = append(toks, stok{"int", strings.ReplaceAll(src[i:j], "_", ""), line, bol})
			i = j
		case c == '"':
			j := i + 1
			var sb strings.Builder
			for j < n && src[j] != '"' {
				if src[j] == '\\' && j+1 < n {
					j++
					switch src[j] {
					case 'n':
						sb.WriteByte('\n')
					case 't':
						sb.WriteByte('\t')
					default:
						sb.WriteByte(src[j])
					}
				} else {
					sb.WriteByte(src[j])
				}
				j++
			}
			if j >= n {
				return nil, fmt.Errorf("%s:%d: unterminated string", file, line)
			}
			toks = append(toks, stok{"str", sb.String(), line, bol})
			i = j + 1
		default:
			matched := false
			for _, op := range ops3 {
				if strings.HasPrefix(src[i:], op) {
					toks = append(toks, stok{"op", op, line, bol})
					i += len(op)
					matched = true
					break
				}
			}
			if !matched {
				toks = append(toks, stok{"op", string(c), line, bol})
				i++
			}
		}
		bol = false
	}
	toks = append(toks, stok{"eof", "", line, true})
	return toks, nil
}

// ---------------------------------------------------------------------------

type Monitor struct {
	Callee string // ssa-ish callee name pattern
	When   string // before | after
	Params []string
	Result []string
	Stmts  []*GhostStmt
	Line   int
}

type GhostStmt struct {
	Kind string // assert | assign | if
	Name string // assign target / label
	Expr *Expr
	Then []*GhostStmt
	Else []*GhostStmt
	Line int
}

type GhostVar struct {
	Name string
	Sort string
	Init *Expr
}

type LetDef struct {
	Name string
	Expr *Expr
}

type Clause struct {
	Label    string // optional [label]
	Expr     *Expr
	Line     int
	Internal bool // `checks`: verified at every return like ensures, but not part of what callers may assume
}

type ModItem struct {
	Expr *Expr // location expression: x.f | x.* | x.f[*] | spare(x.f) | ghost name
	Line int
}

type Contract struct {
	Func     string
	Params   []string
	Results  []string
	Requires []Clause
	Ensures  []Clause
	Modifies []ModItem
	HasMod   bool
	Invs     map[int][]Clause
	Decs     map[int]*Expr
	Lets     []LetDef
	Ghosts   []GhostVar
	Monitors []*Monitor
	NoPanic  bool
	Pure     bool
	Trusted  bool // contract assumed, body not verified
	Inline   bool // force inlining at call sites even though contracted
	Props    []string
	File     string
	Line     int
	Attrs    map[string]string
}

type MacroDef struct {
	Name   string
	Params []string
	Body   *Expr
}

type UFuncDef struct {
	Name   string
	Params []string
	Sort   string
}

type AxiomDef struct {
	Name string
	Expr *Expr
	File string
	Line int
}

type LemmaDef struct {
	Name    string
	Assumes []Clause
	Shows   []Clause
	Props   []string
	File    string
	Line    int
}

// ChainDef declares a state machine whose states are methods under contract: the chain lemma checks, for every
// pair of states f, g, that the postcondition of f on the edge Next == g (with Err == nil) implies the precondition of g.
type ChainDef struct {
	Name   string // receiver, e.g. (*States)
	States []string
	Final  string
	Props  []string
	Skip   []string // labels of preconditions that are assumed on edges, not checked (listed as assumptions)
	File   string
	Line   int
}

type HParam struct {
	Name string
	Type string // SMT sort or Go type text
}

// HFuncDef is a (possibly recursive) heap-reading specification function. Calls pass the
// current heap arrays named in Reads as extra arguments; its definition is unfolded on
// ground instances by the VC generator (limited unfolding, no quantified axiom).
type HFuncDef struct {
	Name   string
	Params []HParam
	Ret    string
	Reads  []string
	Body   *Expr
	File   string
	Line   int
}

type SpecFile struct {
	Contracts []*Contract
	Macros    []*MacroDef
	UFuncs    []*UFuncDef
	HFuncs    []*HFuncDef
	Axioms    []*AxiomDef
	Sorts     []string
	Lemmas    []*LemmaDef
	Ghosts    []GhostVar
	FnTypes   []string
	Chains    []*ChainDef
}

type parser struct {
	toks []stok
	p    int
	file string
}

func (ps *parser) peek() stok { return ps.toks[ps.p] }
func (ps *parser) next() stok { t := ps.toks[ps.p]; ps.p++; return t }
func (ps *parser) isOp(s string) bool {
	t := ps.peek()
	return t.kind == "op" && t.text == s
}
func (ps *parser) isID(s string) bool {
	t := ps.peek()
	return t.kind == "id" && t.text == s
}
func (ps *parser) errf(f string, a ...any) error {
	return fmt.Errorf("%s:%d: %s", ps.file, ps.peek().line, fmt.Sprintf(f, a...))
}
func (ps *parser) expectOp(s string) error {
	if !ps.isOp(s) {
		return ps.errf("expected %q, found %q", s, ps.peek().text)
	}
	ps.next()
	return nil
}

var clauseKW = map[string]bool{"requires": true, "ensures": true, "modifies": true, "invariant": true, "decreases": true,
	"let": true, "ghost": true, "on": true, "checks": true, "nopanic": true, "pure": true, "trusted": true, "inline": true, "props": true, "attr": true,
	"func": true, "macro": true, "ufunc": true, "axiom": true, "sort": true, "lemma": true, "assume": true, "show": true, "hfunc": true, "fntype": true, "chain": true, "states": true, "final": true, "assumes": true}

// atClauseStart: a clause keyword at beginning of a line ends the previous expression.
func (ps *parser) atClauseStart() bool {
	t := ps.peek()
	if t.kind == "eof" {
		return true
	}
	return t.bol && t.kind == "id" && clauseKW[t.text]
}

// readFuncName reads the go/ssa-style function name following `func`.
func (ps *parser) readFuncName() (string, error) {
	var sb strings.Builder
	// optional receiver "(*T)" or "(T)"
	if ps.isOp("(") {
		depth := 0
		for {
			t := ps.next()
			if t.kind == "eof" {
				return "", ps.errf("bad function name")
			}
			sb.WriteString(t.text)
			if t.kind == "op" && t.text == "(" {
				depth++
			}
			if t.kind == "op" && t.text == ")" {
				depth--
				if depth == 0 {
					break
				}
			}
		}
	}
	for {
		t := ps.peek()
		if t.kind == "op" && t.text == "(" {
			break
		}
		if t.kind == "eof" || (t.bol && sb.Len() > 0) {
			return "", ps.errf("bad function name %q", sb.String())
		}
		if t.kind == "op" && t.text != "." && t.text != "[" && t.text != "]" && t.text != "*" && t.text != "/" && t.text != "#" && t.text != ":" && t.text != "-" {
			return "", ps.errf("bad stok %q in function name", t.text)
		}
		sb.WriteString(t.text)
		ps.next()
	}
	return sb.String(), nil
}

// readChainName reads a receiver like (*States) up to the end of the line.
func (ps *parser) readChainName() (string, error) {
	var sb strings.Builder
	line := ps.peek().line
	for ps.peek().line == line && ps.peek().kind != "eof" {
		sb.WriteString(ps.next().text)
	}
	if sb.Len() == 0 {
		return "", ps.errf("chain needs a receiver")
	}
	return sb.String(), nil
}

func (ps *parser) identList() ([]string, error) {
	var out []string
	if err := ps.expectOp("("); err != nil {
		return nil, err
	}
	for !ps.isOp(")") {
		t := ps.next()
		if t.kind != "id" {
			return nil, ps.errf("expected identifier, found %q", t.text)
		}
		out = append(out, t.text)
		if ps.isOp(",") {
			ps.next()
		}
	}
	ps.next()
	return out, nil
}

func (ps *parser) parseFile() (*SpecFile, error) {
	sf := &SpecFile{}
	for ps.peek().kind != "eof" {
		t := ps.peek()
		if t.kind != "id" {
			return nil, ps.errf("unexpected %q at top level", t.text)
		}
		switch t.text {
		case "func", "trusted":
			c, err := ps.parseContract()
			if err != nil {
				return nil, err
			}
			sf.Contracts = append(sf.Contracts, c)
		case "macro":
			ps.next()
			name := ps.next().text
			params, err := ps.identList()
			if err != nil {
				return nil, err
			}
			if err := ps.expectOp("="); err != nil {
				return nil, err
			}
			e, err := ps.parseExpr()
			if err != nil {
				return nil, err
			}
			sf.Macros = append(sf.Macros, &MacroDef{name, params, e})
		case "ufunc":
			ps.next()
			name := ps.next().text
			if err := ps.expectOp("("); err != nil {
				return nil, err
			}
			var params []string
			for !ps.isOp(")") {
				s, err := ps.parseSort()
				if err != nil {
					return nil, err
				}
				params = append(params, s)
				if ps.isOp(",") {
					ps.next()
				}
			}
			ps.next()
			s, err := ps.parseSort()
			if err != nil {
				return nil, err
			}
			sf.UFuncs = append(sf.UFuncs, &UFuncDef{name, params, s})
		case "sort":
			ps.next()
			sf.Sorts = append(sf.Sorts, ps.next().text)
		case "ghost":
			ps.next()
			name := ps.next().text
			if err := ps.expectOp(":"); err != nil {
				return nil, err
			}
			srt, err := ps.parseSort()
			if err != nil {
				return nil, err
			}
			sf.Ghosts = append(sf.Ghosts, GhostVar{Name: name, Sort: srt})
		case "fntype":
			ps.next()
			sf.FnTypes = append(sf.FnTypes, ps.next().text)
		case "hfunc":
			ps.next()
			h := &HFuncDef{File: ps.file, Line: ps.peek().line}
			h.Name = ps.next().text
			if err := ps.expectOp("("); err != nil {
				return nil, err
			}
			for !ps.isOp(")") {
				pn := ps.next().text
				if err := ps.expectOp(":"); err != nil {
					return nil, err
				}
				var ty string
				if ps.isOp("(") {
					var err error
					if ty, err = ps.parseSort(); err != nil {
						return nil, err
					}
				} else {
					te, err := ps.parseRawType()
					if err != nil {
						return nil, err
					}
					ty = te.Name
				}
				h.Params = append(h.Params, HParam{pn, ty})
				if ps.isOp(",") {
					ps.next()
				}
			}
			ps.next()
			var rs string
			var err error
			if ps.isOp("(") {
				if rs, err = ps.parseSort(); err != nil {
					return nil, err
				}
			} else {
				for !ps.isID("reads") && !ps.isOp("=") && ps.peek().kind != "eof" {
					rs += ps.next().text
				}
			}
			h.Ret = rs
			if ps.isID("reads") {
				ps.next()
				for {
					h.Reads = append(h.Reads, ps.next().text)
					if ps.isOp(",") {
						ps.next()
						continue
					}
					break
				}
			}
			if err := ps.expectOp("="); err != nil {
				return nil, err
			}
			if h.Body, err = ps.parseExpr(); err != nil {
				return nil, err
			}
			sf.HFuncs = append(sf.HFuncs, h)
		case "axiom":
			ps.next()
			name := ps.next().text
			if err := ps.expectOp(":"); err != nil {
				return nil, err
			}
			line := ps.peek().line
			e, err := ps.parseExpr()
			if err != nil {
				return nil, err
			}
			sf.Axioms = append(sf.Axioms, &AxiomDef{name, e, ps.file, line})
		case "chain":
			ps.next()
			c := &ChainDef{File: ps.file, Line: ps.peek().line}
			name, err := ps.readChainName()
			if err != nil {
				return nil, err
			}
			c.Name = name
			for !ps.atTopDecl() {
				t := ps.next()
				switch t.text {
				case "states":
					for !ps.atClauseStart() && !ps.isID("final") && !ps.isID("props") {
						c.States = append(c.States, ps.next().text)
					}
				case "final":
					c.Final = ps.next().text
				case "assumes":
					for !ps.atClauseStart() && !ps.isID("props") && !ps.isID("final") {
						c.Skip = append(c.Skip, ps.next().text)
					}
				case "props":
					for !ps.atClauseStart() {
						c.Props = append(c.Props, ps.next().text)
						if ps.isOp(",") {
							ps.next()
						}
					}
				default:
					return nil, ps.errf("unexpected %q in chain", t.text)
				}
			}
			sf.Chains = append(sf.Chains, c)
		case "lemma":
			l, err := ps.parseLemma()
			if err != nil {
				return nil, err
			}
			sf.Lemmas = append(sf.Lemmas, l)
		default:
			return nil, ps.errf("unexpected %q at top level", t.text)
		}
	}
	return sf, nil
}

func (ps *parser) parseSort() (string, error) {
	t := ps.next()
	if t.kind == "id" {
		return t.text, nil
	}
	if t.kind == "op" && t.text == "(" {
		// (Array Int X)
		s := "("
		first := true
		for !ps.isOp(")") {
			x, err := ps.parseSort()
			if err != nil {
				return "", err
			}
			if !first {
				s += " "
			}
			s += x
			first = false
		}
		ps.next()
		return s + ")", nil
	}
	return "", ps.errf("bad sort %q", t.text)
}

func (ps *parser) parseLabel() string {
	if ps.isOp("[") && ps.p+2 < len(ps.toks) && ps.toks[ps.p+1].kind == "id" && ps.toks[ps.p+2].kind == "op" && ps.toks[ps.p+2].text == "]" {
		// label only when followed by something that is not an operator continuing an index expr; labels are
		// written directly after the keyword, so this is unambiguous there.
		l := ps.toks[ps.p+1].text
		ps.p += 3
		return l
	}
	return ""
}

func (ps *parser) parseLemma() (*LemmaDef, error) {
	ps.next()
	l := &LemmaDef{File: ps.file, Line: ps.peek().line}
	l.Name = ps.next().text
	for !ps.atTopDecl() {
		t := ps.next()
		switch t.text {
		case "props":
			for !ps.atClauseStart() {
				l.Props = append(l.Props, ps.next().text)
				if ps.isOp(",") {
					ps.next()
				}
			}
		case "assume", "show":
			lab := ps.parseLabel()
			line := ps.peek().line
			e, err := ps.parseExpr()
			if err != nil {
				return nil, err
			}
			if t.text == "assume" {
				l.Assumes = append(l.Assumes, Clause{Label: lab, Expr: e, Line: line})
			} else {
				l.Shows = append(l.Shows, Clause{Label: lab, Expr: e, Line: line})
			}
		default:
			return nil, ps.errf("unexpected %q in lemma", t.text)
		}
	}
	return l, nil
}

func (ps *parser) atTopDecl() bool {
	t := ps.peek()
	if t.kind == "eof" {
		return true
	}
	if !(t.bol && t.kind == "id") {
		return false
	}
	switch t.text {
	case "func", "macro", "ufunc", "axiom", "sort", "lemma", "trusted", "hfunc", "fntype", "chain":
		return true
	case "ghost":
		// top-level ghost declaration: "ghost name: Sort" with no initialiser, at column 0 after a blank line;
		// inside a contract the same keyword is a clause. Top-level ones must precede the first contract.
		return false
	}
	return false
}

func (ps *parser) parseContract() (*Contract, error) {
	c := &Contract{Invs: map[int][]Clause{}, Decs: map[int]*Expr{}, File: ps.file, Line: ps.peek().line, Attrs: map[string]string{}}
	if ps.isID("trusted") {
		ps.next()
		c.Trusted = true
	}
	if !ps.isID("func") {
		return nil, ps.errf("expected func")
	}
	ps.next()
	name, err := ps.readFuncName()
	if err != nil {
		return nil, err
	}
	c.Func = name
	if c.Params, err = ps.identList(); err != nil {
		return nil, err
	}
	if ps.isOp("(") && !ps.peek().bol {
		if c.Results, err = ps.identList(); err != nil {
			return nil, err
		}
	}
	for !ps.atTopDecl() {
		t := ps.next()
		if t.kind != "id" {
			return nil, fmt.Errorf("%s:%d: unexpected %q in contract of %s", ps.file, t.line, t.text, c.Func)
		}
		switch t.text {
		case "nopanic":
			c.NoPanic = true
		case "pure":
			c.Pure = true
		case "inline":
			c.Inline = true
		case "props":
			for !ps.atClauseStart() {
				c.Props = append(c.Props, ps.next().text)
				if ps.isOp(",") {
					ps.next()
				}
			}
		case "attr":
			k := ps.next().text
			v := ps.next().text
			if k == "unreachableret" {
				// a list of return-site ordinals
				for ps.peek().kind == "int" && !ps.peek().bol {
					v += "," + ps.next().text
				}
			}
			c.Attrs[k] = v
		case "requires", "ensures", "checks":
			lab := ps.parseLabel()
			line := ps.peek().line
			e, err := ps.parseExpr()
			if err != nil {
				return nil, err
			}
			cl := Clause{Label: lab, Expr: e, Line: line, Internal: t.text == "checks"}
			if t.text == "requires" {
				c.Requires = append(c.Requires, cl)
			} else {
				c.Ensures = append(c.Ensures, cl)
			}
		case "modifies":
			c.HasMod = true
			if ps.isID("nothing") {
				ps.next()
				break
			}
			for {
				line := ps.peek().line
				e, err := ps.parseModItem()
				if err != nil {
					return nil, err
				}
				c.Modifies = append(c.Modifies, ModItem{e, line})
				if ps.isOp(",") {
					ps.next()
					continue
				}
				break
			}
		case "invariant", "decreases":
			retry := false
			iter := false
			cbk := false
			if ps.isID("retry") {
				retry = true
			} else if ps.isID("iter") {
				iter = true
			} else if ps.isID("cb") {
				cbk = true
			} else if !ps.isID("loop") {
				return nil, ps.errf("expected 'loop', 'retry' or 'iter' after %s", t.text)
			}
			ps.next()
			nt := ps.next()
			if nt.kind != "int" {
				return nil, ps.errf("expected loop ordinal")
			}
			var n int
			fmt.Sscanf(nt.text, "%d", &n)
			if err := ps.expectOp(":"); err != nil {
				return nil, err
			}
			lab := ps.parseLabel()
			line := ps.peek().line
			e, err := ps.parseExpr()
			if err != nil {
				return nil, err
			}
			if retry {
				n += 1000 // invariants of the n-th Retry call site share the table with loop invariants
			}
			if iter {
				n += 2000 // invariants of the n-th `range walk.Plan` loop
			}
			if cbk {
				n += 3000 // invariants of the ResultFunc of the n-th sqlitex.Execute
			}
			if t.text == "invariant" {
				c.Invs[n] = append(c.Invs[n], Clause{Label: lab, Expr: e, Line: line})
			} else {
				c.Decs[n] = e
			}
		case "let":
			name := ps.next().text
			if err := ps.expectOp("="); err != nil {
				return nil, err
			}
			e, err := ps.parseExpr()
			if err != nil {
				return nil, err
			}
			c.Lets = append(c.Lets, LetDef{name, e})
		case "ghost":
			name := ps.next().text
			if err := ps.expectOp(":"); err != nil {
				return nil, err
			}
			s, err := ps.parseSort()
			if err != nil {
				return nil, err
			}
			var init *Expr
			if ps.isOp("=") {
				ps.next()
				if init, err = ps.parseExpr(); err != nil {
					return nil, err
				}
			}
			c.Ghosts = append(c.Ghosts, GhostVar{name, s, init})
		case "on":
			m, err := ps.parseMonitor()
			if err != nil {
				return nil, err
			}
			c.Monitors = append(c.Monitors, m)
		default:
			return nil, fmt.Errorf("%s:%d: unexpected %q in contract of %s", ps.file, t.line, t.text, c.Func)
		}
	}
	return c, nil
}

// on call <callee>(params) before|after [(results)] { stmts }
func (ps *parser) parseMonitor() (*Monitor, error) {
	m := &Monitor{Line: ps.peek().line}
	if !ps.isID("call") {
		return nil, ps.errf("expected 'call' after 'on'")
	}
	ps.next()
	name, err := ps.readFuncName()
	if err != nil {
		return nil, err
	}
	m.Callee = name
	if m.Params, err = ps.identList(); err != nil {
		return nil, err
	}
	w := ps.next()
	if w.text != "before" && w.text != "after" {
		return nil, ps.errf("expected before/after")
	}
	m.When = w.text
	if ps.isOp("(") {
		if m.Result, err = ps.identList(); err != nil {
			return nil, err
		}
	}
	if m.Stmts, err = ps.parseGhostBlock(); err != nil {
		return nil, err
	}
	return m, nil
}

func (ps *parser) parseGhostBlock() ([]*GhostStmt, error) {
	if err := ps.expectOp("{"); err != nil {
		return nil, err
	}
	var out []*GhostStmt
	for !ps.isOp("}") {
		if ps.isOp(";") {
			ps.next()
			continue
		}
		t := ps.peek()
		switch {
		case t.kind == "id" && t.text == "assert":
			ps.next()
			lab := ps.parseLabel()
			e, err := ps.parseExpr()
			if err != nil {
				return nil, err
			}
			out = append(out, &GhostStmt{Kind: "assert", Name: lab, Expr: e, Line: t.line})
		case t.kind == "id" && t.text == "assume":
			ps.next()
			e, err := ps.parseExpr()
			if err != nil {
				return nil, err
			}
			out = append(out, &GhostStmt{Kind: "assume", Expr: e, Line: t.line})
		case t.kind == "id" && t.text == "havoc":
			// havoc item {, item}: the listed locations / ghosts take arbitrary values (what another thread may have
			// done to lock-protected state before a lock was acquired); items are written as in a modifies clause
			ps.next()
			hs := &GhostStmt{Kind: "havoc", Line: t.line}
			for {
				e, err := ps.parseModItem()
				if err != nil {
					return nil, err
				}
				hs.Then = append(hs.Then, &GhostStmt{Expr: e})
				if ps.isOp(",") {
					ps.next()
					continue
				}
				break
			}
			out = append(out, hs)
		case t.kind == "id" && t.text == "if":
			ps.next()
			e, err := ps.parseExpr()
			if err != nil {
				return nil, err
			}
			th, err := ps.parseGhostBlock()
			if err != nil {
				return nil, err
			}
			var el []*GhostStmt
			if ps.isID("else") {
				ps.next()
				if el, err = ps.parseGhostBlock(); err != nil {
					return nil, err
				}
			}
			out = append(out, &GhostStmt{Kind: "if", Expr: e, Then: th, Else: el, Line: t.line})
		case t.kind == "id":
			ps.next()
			// name := expr   or   name[idx] := expr
			var idx *Expr
			if ps.isOp("[") {
				ps.next()
				var err error
				if idx, err = ps.parseExpr(); err != nil {
					return nil, err
				}
				if err := ps.expectOp("]"); err != nil {
					return nil, err
				}
			}
			if err := ps.expectOp(":="); err != nil {
				return nil, err
			}
			e, err := ps.parseExpr()
			if err != nil {
				return nil, err
			}
			st := &GhostStmt{Kind: "assign", Name: t.text, Expr: e, Line: t.line}
			if idx != nil {
				st.Kind = "assignidx"
				st.Then = []*GhostStmt{{Expr: idx}}
			}
			out = append(out, st)
		default:
			return nil, ps.errf("unexpected %q in ghost block", t.text)
		}
	}
	ps.next()
	return out, nil
}

// modifies item: postfix expression possibly ending in .* or [*]
func (ps *parser) parseModItem() (*Expr, error) {
	return ps.parsePostfix(true)
}

// expression grammar -------------------------------------------------------
// quant  := (forall|exists) v[: Sort] {, v[: Sort]} :: expr
// expr   := iff
// iff    := imp { <==> imp }
// imp    := or [ ==> imp ]            (right assoc)
// or     := and { || and }
// and    := cmp { && cmp }
// cmp    := add { (==|!=|<|<=|>|>=|in|!in) add }   chained
// add    := mul { (+|-) mul }
// mul    := un { (*|/|%) un }
// un     := (!|-) un | postfix
// cond   := iff ? expr : expr

func (ps *parser) parseExpr() (*Expr, error) {
	if ps.isID("forall") || ps.isID("exists") {
		return ps.parseQuant()
	}
	e, err := ps.parseIff()
	if err != nil {
		return nil, err
	}
	if ps.isOp("?") {
		line := ps.next().line
		a, err := ps.parseExpr()
		if err != nil {
			return nil, err
		}
		if err := ps.expectOp(":"); err != nil {
			return nil, err
		}
		b, err := ps.parseExpr()
		if err != nil {
			return nil, err
		}
		return &Expr{Kind: "cond", Args: []*Expr{e, a, b}, Line: line, File: ps.file}, nil
	}
	return e, nil
}

func (ps *parser) parseQuant() (*Expr, error) {
	t := ps.next()
	q := &Expr{Kind: "quant", Name: t.text, Line: t.line, File: ps.file}
	for {
		v := ps.next()
		if v.kind != "id" {
			return nil, ps.errf("expected bound variable")
		}
		qv := QVar{Name: v.text}
		if ps.isOp(":") {
			ps.next()
			if ps.isOp("*") {
				// a Go pointer type: *pkg.Name
				var sb strings.Builder
				for !ps.isOp("::") && !ps.isOp(",") && !ps.isOp("{") && ps.peek().kind != "eof" {
					sb.WriteString(ps.next().text)
				}
				qv.Sort = sb.String()
			} else {
				s, err := ps.parseSort()
				if err != nil {
					return nil, err
				}
				qv.Sort = s
			}
		}
		q.Vars = append(q.Vars, qv)
		if ps.isOp(",") {
			ps.next()
			continue
		}
		break
	}
	for ps.isOp("{") {
		ps.next()
		var pat []*Expr
		for !ps.isOp("}") {
			x, err := ps.parseAdd()
			if err != nil {
				return nil, err
			}
			pat = append(pat, x)
			if ps.isOp(",") {
				ps.next()
			}
		}
		ps.next()
		q.Pats = append(q.Pats, pat)
	}
	if err := ps.expectOp("::"); err != nil {
		return nil, err
	}
	body, err := ps.parseExpr()
	if err != nil {
		return nil, err
	}
	q.Args = []*Expr{body}
	return q, nil
}

func (ps *parser) bin(op string, a, b *Expr, line int) *Expr {
	return &Expr{Kind: "bin", Name: op, Args: []*Expr{a, b}, Line: line, File: ps.file}
}

func (ps *parser) parseIff() (*Expr, error) {
	a, err := ps.parseImp()
	if err != nil {
		return nil, err
	}
	for ps.isOp("<==>") && !ps.atClauseStart() {
		line := ps.next().line
		b, err := ps.parseImp()
		if err != nil {
			return nil, err
		}
		a = ps.bin("<==>", a, b, line)
	}
	return a, nil
}

func (ps *parser) parseImp() (*Expr, error) {
	a, err := ps.parseOr()
	if err != nil {
		return nil, err
	}
	if ps.isOp("==>") {
		line := ps.next().line
		var b *Expr
		if ps.isID("forall") || ps.isID("exists") {
			b, err = ps.parseQuant()
		} else {
			b, err = ps.parseImp()
		}
		if err != nil {
			return nil, err
		}
		return ps.bin("==>", a, b, line), nil
	}
	return a, nil
}

func (ps *parser) parseOr() (*Expr, error) {
	a, err := ps.parseAnd()
	if err != nil {
		return nil, err
	}
	for ps.isOp("||") {
		line := ps.next().line
		b, err := ps.parseAnd()
		if err != nil {
			return nil, err
		}
		a = ps.bin("||", a, b, line)
	}
	return a, nil
}

func (ps *parser) parseAnd() (*Expr, error) {
	a, err := ps.parseCmp()
	if err != nil {
		return nil, err
	}
	for ps.isOp("&&") {
		line := ps.next().line
		var b *Expr
		if ps.isID("forall") || ps.isID("exists") {
			b, err = ps.parseQuant()
		} else {
			b, err = ps.parseCmp()
		}
		if err != nil {
			return nil, err
		}
		a = ps.bin("&&", a, b, line)
	}
	return a, nil
}

var cmpOps = map[string]bool{"==": true, "!=": true, "<": true, "<=": true, ">": true, ">=": true}

func (ps *parser) parseCmp() (*Expr, error) {
	a, err := ps.parseAdd()
	if err != nil {
		return nil, err
	}
	var result *Expr
	for {
		t := ps.peek()
		if t.kind == "op" && cmpOps[t.text] {
			ps.next()
			b, err := ps.parseAdd()
			if err != nil {
				return nil, err
			}
			c := ps.bin(t.text, a, b, t.line)
			if result == nil {
				result = c
			} else {
				result = ps.bin("&&", result, c, t.line)
			}
			a = b
			continue
		}
		neg := false
		save := ps.p
		if t.kind == "op" && t.text == "!" {
			ps.next()
			neg = true
		}
		if ps.isID("in") {
			line := ps.next().line
			if err := ps.expectOp("{"); err != nil {
				return nil, err
			}
			set := &Expr{Kind: "set", Name: "in", Args: []*Expr{a}, Line: line, File: ps.file}
			if neg {
				set.Name = "!in"
			}
			for !ps.isOp("}") {
				x, err := ps.parseAdd()
				if err != nil {
					return nil, err
				}
				set.Args = append(set.Args, x)
				if ps.isOp(",") {
					ps.next()
				}
			}
			ps.next()
			if result == nil {
				result = set
			} else {
				result = ps.bin("&&", result, set, line)
			}
			break
		}
		ps.p = save
		break
	}
	if result != nil {
		return result, nil
	}
	return a, nil
}

func (ps *parser) parseAdd() (*Expr, error) {
	a, err := ps.parseMul()
	if err != nil {
		return nil, err
	}
	for ps.isOp("+") || ps.isOp("-") {
		t := ps.next()
		b, err := ps.parseMul()
		if err != nil {
			return nil, err
		}
		a = ps.bin(t.text, a, b, t.line)
	}
	return a, nil
}

func (ps *parser) parseMul() (*Expr, error) {
	a, err := ps.parseUn()
	if err != nil {
		return nil, err
	}
	for ps.isOp("*") || ps.isOp("/") || ps.isOp("%") {
		t := ps.next()
		b, err := ps.parseUn()
		if err != nil {
			return nil, err
		}
		a = ps.bin(t.text, a, b, t.line)
	}
	return a, nil
}

func (ps *parser) parseUn() (*Expr, error) {
	if ps.isID("forall") || ps.isID("exists") {
		return ps.parseQuant()
	}
	if ps.isOp("!") || ps.isOp("-") {
		t := ps.next()
		a, err := ps.parseUn()
		if err != nil {
			return nil, err
		}
		return &Expr{Kind: "un", Name: t.text, Args: []*Expr{a}, Line: t.line, File: ps.file}, nil
	}
	return ps.parsePostfix(false)
}

// typeArgFuncs take a Go type as their last argument (raw text).
var typeArgFuncs = map[string]bool{"typeis": true, "as": true, "tagof": true, "zero": true, "zeroarr": true, "all": true}

func (ps *parser) parseRawType() (*Expr, error) {
	// read tokens up to the matching ')' or a top-level ','
	var sb strings.Builder
	depth := 0
	line := ps.peek().line
	for {
		t := ps.peek()
		if t.kind == "eof" {
			return nil, ps.errf("unterminated type")
		}
		if t.kind == "op" && (t.text == "(" || t.text == "[" || t.text == "{") {
			depth++
		}
		if t.kind == "op" && (t.text == ")" || t.text == "]" || t.text == "}") {
			if depth == 0 {
				break
			}
			depth--
		}
		if t.kind == "op" && t.text == "," && depth == 0 {
			break
		}
		sb.WriteString(t.text)
		ps.next()
	}
	return &Expr{Kind: "type", Name: sb.String(), Line: line, File: ps.file}, nil
}

func (ps *parser) parsePostfix(modItem bool) (*Expr, error) {
	t := ps.next()
	var e *Expr
	switch {
	case t.kind == "int":
		e = &Expr{Kind: "int", Name: t.text, Line: t.line, File: ps.file}
	case t.kind == "str":
		e = &Expr{Kind: "str", Name: t.text, Line: t.line, File: ps.file}
	case t.kind == "id" && (t.text == "true" || t.text == "false"):
		e = &Expr{Kind: "bool", Name: t.text, Line: t.line, File: ps.file}
	case t.kind == "id" && t.text == "nil":
		e = &Expr{Kind: "nil", Name: "nil", Line: t.line, File: ps.file}
	case t.kind == "id":
		if ps.isOp("(") && !ps.peek().bol {
			ps.next()
			call := &Expr{Kind: "call", Name: t.text, Line: t.line, File: ps.file}
			for !ps.isOp(")") {
				var a *Expr
				var err error
				if typeArgFuncs[t.text] && t.text == "all" && len(call.Args) >= 1 {
					a, err = ps.parseExpr()
				} else if typeArgFuncs[t.text] && (len(call.Args) >= 1 || t.text == "tagof" || t.text == "zero" || t.text == "zeroarr" || (t.text == "all" && len(call.Args) == 0)) {
					a, err = ps.parseRawType()
				} else if modItem {
					a, err = ps.parsePostfix(true)
				} else {
					a, err = ps.parseExpr()
				}
				if err != nil {
					return nil, err
				}
				call.Args = append(call.Args, a)
				if ps.isOp(",") {
					ps.next()
				}
			}
			ps.next()
			e = call
		} else {
			e = &Expr{Kind: "id", Name: t.text, Line: t.line, File: ps.file}
		}
	case t.kind == "op" && t.text == "(":
		x, err := ps.parseExpr()
		if err != nil {
			return nil, err
		}
		if err := ps.expectOp(")"); err != nil {
			return nil, err
		}
		e = x
	default:
		return nil, fmt.Errorf("%s:%d: unexpected %q in expression", ps.file, t.line, t.text)
	}
	for {
		switch {
		case ps.isOp(".") && !ps.peek().bol:
			ps.next()
			f := ps.next()
			if f.kind == "op" && f.text == "*" && modItem {
				e = &Expr{Kind: "field", Name: "*", Args: []*Expr{e}, Line: f.line, File: ps.file}
				continue
			}
			if f.kind != "id" {
				return nil, ps.errf("expected field name")
			}
			// qualified identifiers pkg.Name are resolved at evaluation
			e = &Expr{Kind: "field", Name: f.text, Args: []*Expr{e}, Line: f.line, File: ps.file}
		case ps.isOp("[") && !ps.peek().bol:
			line := ps.next().line
			if modItem && ps.isOp("*") {
				ps.next()
				if err := ps.expectOp("]"); err != nil {
					return nil, err
				}
				e = &Expr{Kind: "index", Args: []*Expr{e, {Kind: "id", Name: "*"}}, Line: line, File: ps.file}
				continue
			}
			var lo, hi *Expr
			var err error
			if !ps.isOp(":") {
				if lo, err = ps.parseExpr(); err != nil {
					return nil, err
				}
			}
			if ps.isOp(":") {
				ps.next()
				if !ps.isOp("]") {
					if hi, err = ps.parseExpr(); err != nil {
						return nil, err
					}
				}
				if err := ps.expectOp("]"); err != nil {
					return nil, err
				}
				e = &Expr{Kind: "slice", Args: []*Expr{e, lo, hi}, Line: line, File: ps.file}
				continue
			}
			if err := ps.expectOp("]"); err != nil {
				return nil, err
			}
			e = &Expr{Kind: "index", Args: []*Expr{e, lo}, Line: line, File: ps.file}
		default:
			return e, nil
		}
	}
}

// ---------------------------------------------------------------------------

// extractSpecBlocks pulls /*@ ... @*/ blocks out of a Go file, preserving line numbers.
func extractSpecBlocks(path string) ([]struct {
	text string
	line int
}, error) {
	b, err := os.ReadFile(path)
	if err != nil {
		return nil, err
	}
	src := string(b)
	var out []struct {
		text string
		line int
	}
	pos := 0
	for {
		i := strings.Index(src[pos:], "/*@")
		if i < 0 {
			break
		}
		i += pos
		j := strings.Index(src[i:], "@*/")
		if j < 0 {
			return nil, fmt.Errorf("%s: unterminated /*@ block", path)
		}
		j += i
		line := 1 + strings.Count(src[:i+3], "\n")
		out = append(out, struct {
			text string
			line int
		}{src[i+3 : j], line})
		pos = j + 3
	}
	return out, nil
}

func parseSpecText(text, file string, line0 int) (*SpecFile, error) {
	toks, err := lex(text, file, line0)
	if err != nil {
		return nil, err
	}
	ps := &parser{toks: toks, file: file}
	return ps.parseFile()
}

func parseSpecPath(path string) (*SpecFile, error) {
	all := &SpecFile{}
	if strings.HasSuffix(path, ".go") {
		blocks, err := extractSpecBlocks(path)
		if err != nil {
			return nil, err
		}
		for _, b := range blocks {
			sf, err := parseSpecText(b.text, path, b.line)
			if err != nil {
				return nil, err
			}
			mergeSpec(all, sf)
		}
		return all, nil
	}
	b, err := os.ReadFile(path)
	if err != nil {
		return nil, err
	}
	return parseSpecText(string(b), path, 1)
}

func mergeSpec(dst, src *SpecFile) {
	dst.Contracts = append(dst.Contracts, src.Contracts...)
	dst.Macros = append(dst.Macros, src.Macros...)
	dst.UFuncs = append(dst.UFuncs, src.UFuncs...)
	dst.Axioms = append(dst.Axioms, src.Axioms...)
	dst.Sorts = append(dst.Sorts, src.Sorts...)
	dst.Lemmas = append(dst.Lemmas, src.Lemmas...)
	dst.HFuncs = append(dst.HFuncs, src.HFuncs...)
	dst.Ghosts = append(dst.Ghosts, src.Ghosts...)
	dst.FnTypes = append(dst.FnTypes, src.FnTypes...)
	dst.Chains = append(dst.Chains, src.Chains...)
}
