package main

// Discharging obligations: VC assembly, solver race (z3-new, z3, cvc5), result parsing.

import (
	"context"
	"fmt"
	"os"
	"os/exec"
	"path/filepath"
	"sort"
	"strings"
	"sync"
	"time"
)

type SolveResult struct {
	Status  string  // unsat | sat | unknown | timeout | error
	Solver  string
	Seconds float64
	Output  string
	Model   string
	All     map[string]string // per solver status (thorough)
}

type solverSpec struct {
	name string
	cmd  func(file string, timeoutS int) []string
}

var solvers = []solverSpec{
	{"z3-new", func(f string, t int) []string { return []string{"z3-new", fmt.Sprintf("-T:%d", t), f} }},
	{"z3", func(f string, t int) []string { return []string{"z3", fmt.Sprintf("-T:%d", t), f} }},
	{"cvc5", func(f string, t int) []string {
		return []string{"cvc5", fmt.Sprintf("--tlimit=%d", t*1000), "--lang=smt2", f}
	}},
}

// extraSolvers: further configurations raced only in the second pass (undecided obligations): another seed for z3 and
// enumerative instantiation for cvc5 - a different search order often decides a quantified goal the default one gives up on.
var extraSolvers = []solverSpec{
	{"z3-new/seed11", func(f string, t int) []string {
		return []string{"z3-new", fmt.Sprintf("-T:%d", t), "smt.random_seed=11", f}
	}},
	{"cvc5/enum", func(f string, t int) []string {
		return []string{"cvc5", fmt.Sprintf("--tlimit=%d", t*1000), "--lang=smt2", "--full-saturate-quant", f}
	}},
}

// collectConsts returns the declared constants with the given prefix that occur in ts.
func collectConsts(ts []*Term, prefix string) []*Term {
	seen := map[*Term]bool{}
	var out []*Term
	var rec func(t *Term)
	rec = func(t *Term) {
		if seen[t] {
			return
		}
		seen[t] = true
		if t.kind == kConst && strings.HasPrefix(t.Op, prefix) {
			out = append(out, t)
		}
		for _, a := range t.Args {
			rec(a)
		}
	}
	for _, t := range ts {
		rec(t)
	}
	sort.Slice(out, func(i, j int) bool { return out[i].Op < out[j].Op })
	return out
}

func (x *Exec) buildVC(o *Obligation) *VC {
	vc := &VC{Name: o.Name}
	// relevance: a fact guarded by a path condition that the obligation's own path condition
	// contradicts syntactically can never fire; dropping it is sound and keeps VCs small.
	seenFact := map[*Term]bool{}
	pcSet := map[*Term]bool{}
	for _, c := range conjuncts(o.PC) {
		pcSet[c] = true
	}
	for _, f := range o.Facts {
		if f.kind == kApp && f.Op == "=>" {
			dead := false
			for _, g := range conjuncts(f.Args[0]) {
				if pcSet[Not(g)] {
					dead = true
					break
				}
			}
			if dead {
				continue
			}
		}
		if seenFact[f] {
			continue
		}
		seenFact[f] = true
		vc.Asserts = append(vc.Asserts, f)
	}
	vc.Asserts = append(vc.Asserts, x.axiomTerms()...)
	vc.Asserts = append(vc.Asserts, o.PC)
	vc.Goal = o.Goal
	all := append(append([]*Term{}, vc.Asserts...), o.Goal)
	// string literals are pairwise distinct
	if strs := collectConsts(all, "str!"); len(strs) > 1 {
		vc.Asserts = append(vc.Asserts, App("distinct", "Bool", strs...))
	}
	// package-level variables are distinct objects allocated before entry
	globs := collectConsts(all, "glob_")
	for _, g := range globs {
		vc.Asserts = append(vc.Asserts, Gt(g, Int(0)), Lt(g, Const("alloc!0", "Int")))
	}
	if len(globs) > 1 {
		vc.Asserts = append(vc.Asserts, App("distinct", "Bool", globs...))
	}
	vc.Asserts = append(vc.Asserts, heapWFAxioms(append(append([]*Term{}, vc.Asserts...), o.Goal))...)
	vc.Asserts = append(vc.Asserts, x.unfoldHFuncs(append(append([]*Term{}, vc.Asserts...), o.Goal))...)
	vc.Asserts = append(vc.Asserts, normAxioms()...)
	vc.Asserts = append(vc.Asserts, ifaceFacts()...)
	if _, ok := symTab["ix"]; ok {
		vc.Asserts = append(vc.Asserts, ixAxiom())
	}
	vc.Asserts = append(vc.Asserts, jsonAxioms()...)
	if usesQuantBox(append(append([]*Term{}, vc.Asserts...), o.Goal)) {
		vc.Asserts = append(vc.Asserts, boxAxioms()...)
	}
	vc.Asserts = append(vc.Asserts, uuidAxioms()...)
	vc.Asserts = append(vc.Asserts, constArrayAxioms()...)
	if _, ok := symTab["unix_epoch"]; ok {
		vc.Asserts = append(vc.Asserts, Gt(unixEpoch(), Int(0)))
	}
	if _, ok := symTab["walkObj"]; ok && usesSymbol(append(append([]*Term{}, vc.Asserts...), o.Goal), "walkObj") {
		vc.Asserts = append(vc.Asserts, x.walkAxiom())
	}
	return vc
}

var axiomCache []*Term
var axiomDone bool

func (x *Exec) axiomTerms() []*Term {
	if axiomDone {
		return axiomCache
	}
	axiomDone = true
	for _, a := range x.specs.axioms {
		env := &SpecEnv{x: x, vars: map[string]SVal{}, st: newState(), lets: map[string]*Expr{}}
		func() {
			defer func() {
				if r := recover(); r != nil {
					if u, ok := r.(unsupported); ok {
						fmt.Fprintf(os.Stderr, "axiom %s: %s\n", a.Name, u.msg)
						os.Exit(2)
					}
					panic(r)
				}
			}()
			axiomCache = append(axiomCache, env.boolean(a.Expr))
		}()
		x.assumed["axiom "+a.Name] = true
	}
	return axiomCache
}

func parseStatus(out string) string {
	for _, line := range strings.Split(out, "\n") {
		line = strings.TrimSpace(line)
		switch line {
		case "unsat", "sat", "unknown", "timeout":
			return line
		}
		if strings.HasPrefix(line, "(error") {
			return "error"
		}
	}
	if strings.Contains(out, "timeout") || strings.Contains(out, "interrupted") {
		return "timeout"
	}
	return "error"
}

func runSolver(ctx context.Context, s solverSpec, file string, timeoutS int) (string, string, float64) {
	args := s.cmd(file, timeoutS)
	cctx, cancel := context.WithTimeout(ctx, time.Duration(timeoutS+2)*time.Second)
	defer cancel()
	t0 := time.Now()
	cmd := exec.CommandContext(cctx, args[0], args[1:]...)
	out, _ := cmd.CombinedOutput()
	el := time.Since(t0).Seconds()
	if cctx.Err() != nil && ctx.Err() == nil && len(out) == 0 {
		return "timeout", "", el
	}
	if ctx.Err() != nil {
		return "cancelled", "", el
	}
	return parseStatus(string(out)), string(out), el
}

func firstLines(s string, n int) string {
	ls := strings.Split(s, "\n")
	if len(ls) > n {
		ls = ls[:n]
	}
	return strings.Join(ls, "\n")
}

// getModel re-runs a failing VC with model production on the solver that said sat (or z3-new).
func getModel(dir string, vc *VC, timeoutS int) string {
	base := filepath.Join(dir, smtName(vc.Name))
	if len(base) > 200 {
		base = base[:200]
	}
	file := base + ".model.smt2"
	os.WriteFile(file, []byte(vc.Print("ALL", true)), 0o644)
	for _, s := range solvers[:2] {
		st, out, _ := runSolver(context.Background(), s, file, timeoutS)
		if st == "sat" {
			return out
		}
	}
	return ""
}

// solveAll discharges obligations in parallel.
// solveAllSplit discharges obligations; a failed conjunctive obligation is replaced by its conjuncts, solved one by one,
// so that what is reported as failed is as specific as possible. Returns the final list.
func (x *Exec) solveAllSplit(obls []*Obligation, dir string, timeoutS int, agree bool, par int) []*Obligation {
	x.solveAll(obls, dir, timeoutS, agree, par)
	var out, parts []*Obligation
	idx := map[*Obligation][]*Obligation{}
	for _, o := range obls {
		if o.Split == nil || o.Result == nil || o.Result.Status == "unsat" || o.Kind == "canary" {
			continue
		}
		for i, c := range o.Split {
			lab := fmt.Sprintf("%s/%d", o.label, i+1)
			name := fmt.Sprintf("%s#%s[%s]", o.Func, o.Kind, lab)
			if o.site != "" {
				name += "@" + o.site
			}
			if k := strings.LastIndex(o.Name, "~"); k >= 0 {
				name += o.Name[k:]
			}
			p := &Obligation{Name: name, Func: o.Func, Kind: o.Kind, Facts: o.Facts, PC: o.PC, Goal: c, Note: o.Note, Props: o.Props}
			idx[o] = append(idx[o], p)
			parts = append(parts, p)
		}
	}
	if len(parts) > 0 {
		x.solveAll(parts, dir, timeoutS, agree, par)
	}
	for _, o := range obls {
		if ps, ok := idx[o]; ok {
			allOK := true
			for _, p := range ps {
				if p.Result.Status != "unsat" {
					allOK = false
				}
			}
			if allOK {
				// every conjunct discharges on its own: the obligation holds (the solvers only failed on the conjunction)
				o.Result = &SolveResult{Status: "unsat", Solver: "split", Seconds: 0}
				out = append(out, o)
				continue
			}
			out = append(out, ps...)
			continue
		}
		out = append(out, o)
	}
	// second chance for undecided obligations: a timeout (or an unknown given up under a time limit) on a loaded machine
	// is not a refutation. Whatever is still timeout/unknown after the first pass is solved once more with three times
	// the limit and half the parallelism; only what stays undecided is reported. (Nothing is retried on a quiet machine
	// with an unchanged tree: the set is empty.)
	var again []*Obligation
	for _, o := range out {
		if o.Kind != "canary" && o.Failed == "" && !x.noRetry[o.Name] && o.Result != nil && (o.Result.Status == "timeout" || o.Result.Status == "unknown") {
			again = append(again, o)
		}
	}
	if len(again) > 0 && len(again) <= 64 {
		p2 := par / 2
		if p2 < 2 {
			p2 = 2
		}
		for _, o := range again {
			fmt.Fprintf(os.Stderr, "second pass: %s was %s %v %s\n", o.Name, o.Result.Status, o.Result.All, firstLines(o.Result.Output, 2))
		}
		base := solvers
		solvers = append(append([]solverSpec{}, base...), extraSolvers...)
		x.solveAll(again, dir, timeoutS*3, agree, p2)
		solvers = base
	}
	return out
}

func (x *Exec) solveAll(obls []*Obligation, dir string, timeoutS int, agree bool, par int) {
	var wg sync.WaitGroup
	sem := make(chan struct{}, par)
	// VCs must be built sequentially (term tables are not thread safe)
	vcs := make([]*VC, len(obls))
	texts := make([]string, len(obls))
	for i, o := range obls {
		if o.Failed != "" {
			continue
		}
		vcs[i] = x.buildVC(o)
		_ = texts
	}
	// printing touches only immutable terms + read-only tables: do it sequentially to be safe
	for i, o := range obls {
		if vcs[i] == nil {
			o.Result = &SolveResult{Status: "error", Output: o.Failed}
			continue
		}
		i, o := i, o
		text := vcs[i].Print("ALL", false)
		wg.Add(1)
		sem <- struct{}{}
		go func() {
			defer wg.Done()
			defer func() { <-sem }()
			to := timeoutS
			if o.Kind == "canary" && to > 3 {
				to = 3 // a canary only has to fail to be refuted
			}
			o.Result = solveText(dir, vcs[i].Name, text, to, agree && o.Kind != "canary")
		}()
	}
	wg.Wait()
}

func solveText(dir, name, text string, timeoutS int, agree bool) *SolveResult {
	base := filepath.Join(dir, smtName(name))
	if len(base) > 200 {
		base = base[:200]
	}
	file := base + ".smt2"
	os.WriteFile(file, []byte(text), 0o644)
	ctx, cancel := context.WithCancel(context.Background())
	defer cancel()
	type r struct {
		name, status, out string
		secs              float64
	}
	ch := make(chan r, len(solvers))
	for _, s := range solvers {
		s := s
		go func() {
			st, out, secs := runSolver(ctx, s, file, timeoutS)
			ch <- r{s.name, st, out, secs}
		}()
	}
	res := &SolveResult{Status: "unknown", All: map[string]string{}}
	var firstSat *r
	for i := 0; i < len(solvers); i++ {
		x := <-ch
		res.All[x.name] = x.status
		if x.status == "unsat" && res.Status != "unsat" {
			res.Status, res.Solver, res.Seconds = "unsat", x.name, x.secs
			if !agree {
				cancel()
				break
			}
		}
		if x.status == "sat" && firstSat == nil {
			xx := x
			firstSat = &xx
			if !agree {
				// a sat answer on a QF-ish query is decisive enough to stop waiting for others
				// only if no quantifiers are involved; keep waiting briefly otherwise.
			}
		}
		if x.status == "error" && res.Output == "" {
			res.Output = x.name + ": " + firstLines(x.out, 6)
		}
	}
	if res.Status != "unsat" {
		if firstSat != nil {
			res.Status, res.Solver, res.Seconds = "sat", firstSat.name, firstSat.secs
		} else {
			allTO := true
			for _, s := range res.All {
				if s != "timeout" {
					allTO = false
				}
			}
			if allTO {
				res.Status = "timeout"
			}
		}
	} else if agree && firstSat != nil {
		res.Status = "disagree"
		res.Output = fmt.Sprintf("solver disagreement: %v", res.All)
	}
	return res
}

// heapWFAxioms: for every heap array constant occurring in ts, the references stored in
// objects below its watermark are below that watermark (Go heaps never hold dangling refs).
func heapWFAxioms(ts []*Term) []*Term {
	seen := map[*Term]bool{}
	var found []*Term
	var rec func(t *Term)
	rec = func(t *Term) {
		if seen[t] {
			return
		}
		seen[t] = true
		if t.kind == kConst {
			if _, ok := heapConsts[t]; ok {
				found = append(found, t)
			}
		}
		for _, a := range t.Args {
			rec(a)
		}
	}
	for _, t := range ts {
		rec(t)
	}
	sort.Slice(found, func(i, j int) bool { return found[i].Op < found[j].Op })
	var out []*Term
	for _, h := range found {
		info := heapConsts[h]
		vt := heapValType[info.key]
		if vt == nil {
			continue
		}
		r := BoundVar("q_wr", "Int")
		if strings.HasPrefix(info.key, "EH_") {
			j := BoundVar("q_wj", "Int")
			v := Select(Select(h, r), j)
			body := wfBound(info.bound, v, vt)
			if body == True {
				continue
			}
			out = append(out, Forall([]*Term{r, j}, [][]*Term{{v}}, Implies(And(Gt(r, Int(0)), Lt(r, info.bound)), body)))
			continue
		}
		v := Select(h, r)
		body := wfBound(info.bound, v, vt)
		if body == True {
			continue
		}
		out = append(out, Forall([]*Term{r}, [][]*Term{{v}}, Implies(And(Gt(r, Int(0)), Lt(r, info.bound)), body)))
	}
	return out
}


// usesSymbol: does any of the terms apply the function symbol name?
func usesSymbol(ts []*Term, name string) bool {
	seen := map[*Term]bool{}
	var rec func(t *Term) bool
	rec = func(t *Term) bool {
		if seen[t] {
			return false
		}
		seen[t] = true
		if t.kind == kApp && t.Op == name {
			return true
		}
		for _, a := range t.Args {
			if rec(a) {
				return true
			}
		}
		for _, ps := range t.Pats {
			for _, q := range ps {
				if rec(q) {
					return true
				}
			}
		}
		return false
	}
	for _, t := range ts {
		if rec(t) {
			return true
		}
	}
	return false
}


// usesQuantBox: is some box_* function applied to a term with a bound variable?
func usesQuantBox(ts []*Term) bool {
	seen := map[*Term]bool{}
	var rec func(t *Term) bool
	rec = func(t *Term) bool {
		if seen[t] {
			return false
		}
		seen[t] = true
		if t.kind == kApp && strings.HasPrefix(t.Op, "box_") && len(t.Args) == 1 && t.Args[0].hasBV {
			return true
		}
		for _, a := range t.Args {
			if rec(a) {
				return true
			}
		}
		return false
	}
	for _, t := range ts {
		if rec(t) {
			return true
		}
	}
	return false
}
