package main

// Symbolic state: path condition, heap arrays, allocation watermark, ghost variables.

import (
	"fmt"
	"go/types"
	"sort"

	"golang.org/x/tools/go/ssa"
)

type Value struct {
	T     *Term
	LV    *LValue
	Tup   []Value
	Clo   *Closure
	Local string // non-escaping local variable: its fields live in private heap arrays with this prefix
}

type Closure struct {
	Fn    *ssa.Function
	Binds []Value
}

// LValue designates a memory location: heap array Key at index Ref (and Idx for
// element heaps), then a path of datatype accessors inside the stored value.
type LValue struct {
	Key  string
	Sort string // sort of the heap array
	Ref  *Term
	Idx  *Term // element heaps only
	Path []int
	Typ  types.Type // Go type of the designated location
}

type deferRec struct {
	guard *Term
	call  *ssa.CallCommon
	args  []Value
	fnv   Value
	frame *Frame
	site  ssa.Instruction
}

type State struct {
	pc     *Term
	heap   map[string]*Term
	sorts  map[string]string
	alloc  *Term
	ghost  map[string]*Term
	defers []*deferRec // of the current (innermost non-inlined-complete) frame stack; managed per frame
	writes map[string]bool
	wlog   *writeLog // dry runs only: which single locations were written (precise havoc of loop-invariant cells)
	sealed bool // reading a heap array that is not preset is an error (spec function templates)
}

// writeLog refines the write set of a dry run: refs[k] lists the references written through single-location
// stores into heap array k; any[k] is set when k was written in any other way (callee frames, append, copy ...).
type writeLog struct {
	refs map[string][]*Term
	any  map[string]bool
}

func newWriteLog() *writeLog { return &writeLog{refs: map[string][]*Term{}, any: map[string]bool{}} }

func newState() *State {
	return &State{pc: True, heap: map[string]*Term{}, sorts: heapSorts, alloc: Const("alloc!0", "Int"), ghost: map[string]*Term{}, writes: map[string]bool{}}
}

// heapSorts is global: heap key -> array sort.
var heapSorts = map[string]string{}

func (s *State) clone() *State {
	n := &State{pc: s.pc, heap: make(map[string]*Term, len(s.heap)), sorts: s.sorts, alloc: s.alloc, ghost: make(map[string]*Term, len(s.ghost)), writes: s.writes, wlog: s.wlog}
	for k, v := range s.heap {
		n.heap[k] = v
	}
	for k, v := range s.ghost {
		n.ghost[k] = v
	}
	n.defers = append([]*deferRec(nil), s.defers...)
	return n
}

func baseHeap(key, sort string) *Term {
	if old, ok := heapSorts[key]; ok && old != sort {
		panic(fmt.Sprintf("heap key %s with two sorts %s / %s", key, old, sort))
	}
	heapSorts[key] = sort
	t := Const(key+"!0", sort)
	registerHeapConst(t, key, Const("alloc!0", "Int"))
	return t
}

// heapConsts records, for every heap array constant introduced (entry heaps and havocked
// heaps), its key and the allocation watermark at its introduction: all references stored in
// objects allocated below that watermark are themselves below it.
type heapConstInfo struct {
	key   string
	bound *Term
}

var heapConsts = map[*Term]heapConstInfo{}

func registerHeapConst(t *Term, key string, bound *Term) {
	if _, ok := heapConsts[t]; !ok {
		heapConsts[t] = heapConstInfo{key, bound}
	}
}

// freshHeap introduces a havocked heap array.
func freshHeap(st *State, key, why string) *Term {
	t := Fresh(key+"_"+why, heapSorts[key])
	registerHeapConst(t, key, st.alloc)
	return t
}

func (s *State) H(key, sort string) *Term {
	if t, ok := s.heap[key]; ok {
		return t
	}
	if s.sealed {
		panic(unsupported{"specification function reads heap " + key + " which is not in its reads clause"})
	}
	return baseHeap(key, sort)
}

func (s *State) setH(key string, t *Term) {
	heapSorts[key] = t.Sort
	s.heap[key] = t
	s.writes[key] = true
	if s.wlog != nil {
		s.wlog.any[key] = true
	}
}

// setCell: a store into exactly one location (ref) of heap array key.
func (s *State) setCell(key string, t, ref *Term) {
	heapSorts[key] = t.Sort
	s.heap[key] = t
	s.writes[key] = true
	if s.wlog != nil {
		s.wlog.refs[key] = append(s.wlog.refs[key], ref)
	}
}

func (s *State) G(name string) *Term {
	if t, ok := s.ghost[name]; ok {
		return t
	}
	gs, ok := ghostSorts[name]
	if !ok {
		panic("unknown ghost " + name)
	}
	return Const("G_"+name+"!0", gs)
}

func (s *State) setG(name string, t *Term) {
	s.ghost[name] = t
	s.writes["ghost:"+name] = true
}

var ghostSorts = map[string]string{}

// mergeStates joins states with mutually exclusive path conditions.
func mergeStates(sts []*State) *State {
	if len(sts) == 1 {
		return sts[0]
	}
	out := &State{heap: map[string]*Term{}, sorts: sts[0].sorts, ghost: map[string]*Term{}, writes: sts[0].writes, wlog: sts[0].wlog}
	var pcs []*Term
	for _, s := range sts {
		pcs = append(pcs, s.pc)
	}
	out.pc = Or(pcs...)
	keys := map[string]bool{}
	for _, s := range sts {
		for k := range s.heap {
			keys[k] = true
		}
	}
	sel := func(get func(s *State) *Term) *Term {
		v := get(sts[len(sts)-1])
		for i := len(sts) - 2; i >= 0; i-- {
			v = Ite(sts[i].pc, get(sts[i]), v)
		}
		return v
	}
	var ks []string
	for k := range keys {
		ks = append(ks, k)
	}
	sort.Strings(ks)
	for _, k := range ks {
		k := k
		out.heap[k] = sel(func(s *State) *Term { return s.H(k, heapSorts[k]) })
	}
	gk := map[string]bool{}
	for _, s := range sts {
		for k := range s.ghost {
			gk[k] = true
		}
	}
	for k := range gk {
		k := k
		out.ghost[k] = sel(func(s *State) *Term { return s.G(k) })
	}
	out.alloc = sel(func(s *State) *Term { return s.alloc })
	// defers: union by identity, guards or-ed (each defer instruction executes at most once)
	seen := map[*deferRec]bool{}
	for _, s := range sts {
		for _, d := range s.defers {
			if !seen[d] {
				seen[d] = true
				out.defers = append(out.defers, d)
			}
		}
	}
	return out
}

// ---------------------------------------------------------------------------
// reading and writing through LValues

func (x *Exec) readLV(st *State, lv *LValue) *Term {
	h := st.H(lv.Key, lv.Sort)
	v := Select(h, lv.Ref)
	if lv.Idx != nil {
		v = Select(v, lv.Idx)
	}
	for _, p := range lv.Path {
		v = Acc(v, p)
	}
	return v
}

func updPath(v *Term, path []int, nv *Term) *Term {
	if len(path) == 0 {
		return nv
	}
	return Upd(v, path[0], updPath(Acc(v, path[0]), path[1:], nv))
}

func (x *Exec) writeLV(st *State, lv *LValue, nv *Term) {
	h := st.H(lv.Key, lv.Sort)
	if lv.Idx != nil {
		row := Select(h, lv.Ref)
		cell := Select(row, lv.Idx)
		st.setH(lv.Key, Store(h, lv.Ref, Store(row, lv.Idx, updPath(cell, lv.Path, nv))))
		return
	}
	cell := Select(h, lv.Ref)
	st.setCell(lv.Key, Store(h, lv.Ref, updPath(cell, lv.Path, nv)), lv.Ref)
}

// fieldLV returns the location of field i of the struct designated by ptr (a Ref
// term or an interior LValue).
func (x *Exec) fieldLV(ptr Value, structT types.Type, i int) *LValue {
	st := structT.Underlying().(*types.Struct)
	ft := st.Field(i).Type()
	if ptr.LV != nil {
		lv := *ptr.LV
		lv.Path = append(append([]int{}, lv.Path...), i)
		lv.Typ = ft
		return &lv
	}
	key, sort := fieldHeapKey(structT, i)
	if ptr.Local != "" {
		key = fmt.Sprintf("%s_%s_%d", ptr.Local, st.Field(i).Name(), i)
		heapValType[key] = ft
	}
	heapSorts[key] = sort
	return &LValue{Key: key, Sort: sort, Ref: ptr.T, Typ: ft}
}

// derefLV returns the location a pointer value designates, for non-struct pointees.
func (x *Exec) derefLV(ptr Value, elemT types.Type) *LValue {
	if ptr.LV != nil {
		return ptr.LV
	}
	if mentionsIptr(ptr.T) {
		unsup("dereference of a pointer that may be an interior pointer merged with another value")
	}
	if _, ok := elemT.Underlying().(*types.Array); ok && !isUUID(elemT) {
		at := elemT.Underlying().(*types.Array)
		key, sort := elemHeapKey(at.Elem())
		heapSorts[key] = sort
		// whole row
		return &LValue{Key: key, Sort: sort, Ref: ptr.T, Typ: elemT}
	}
	key, sort := cellHeapKey(elemT)
	if ptr.Local != "" {
		key = ptr.Local
		heapValType[key] = elemT
	}
	heapSorts[key] = sort
	return &LValue{Key: key, Sort: sort, Ref: ptr.T, Typ: elemT}
}

func isStruct(t types.Type) bool {
	if isTimeTime(t) {
		return false
	}
	_, ok := t.Underlying().(*types.Struct)
	return ok
}

// loadPtr loads the value a pointer designates.
func (x *Exec) loadPtr(st *State, ptr Value, elemT types.Type) *Term {
	if ptr.LV != nil {
		return x.readLV(st, ptr.LV)
	}
	if isStruct(elemT) {
		su := elemT.Underlying().(*types.Struct)
		s := sortOf(elemT)
		if su.NumFields() == 0 {
			return Mk(s, Int(0))
		}
		args := make([]*Term, su.NumFields())
		for i := range args {
			args[i] = x.readLV(st, x.fieldLV(ptr, elemT, i))
		}
		return Mk(s, args...)
	}
	return x.readLV(st, x.derefLV(ptr, elemT))
}

func (x *Exec) storePtr(st *State, ptr Value, elemT types.Type, v *Term) {
	if ptr.LV != nil {
		x.writeLV(st, ptr.LV, v)
		return
	}
	if isStruct(elemT) {
		su := elemT.Underlying().(*types.Struct)
		for i := 0; i < su.NumFields(); i++ {
			x.writeLV(st, x.fieldLV(ptr, elemT, i), Acc(v, i))
		}
		return
	}
	x.writeLV(st, x.derefLV(ptr, elemT), v)
}

// newRef allocates a fresh reference.
func (x *Exec) newRef(st *State) *Term {
	r := st.alloc
	st.alloc = Add(st.alloc, Int(1))
	return r
}

// slices -------------------------------------------------------------------

func sArr(s *Term) *Term { return Acc(s, 0) }
func sOff(s *Term) *Term { return Acc(s, 1) }
func sLen(s *Term) *Term { return Acc(s, 2) }
func sCap(s *Term) *Term { return Acc(s, 3) }

func (x *Exec) elemLV(st *State, slice *Term, idx *Term, elemT types.Type) *LValue {
	key, sort := elemHeapKey(elemT)
	heapSorts[key] = sort
	return &LValue{Key: key, Sort: sort, Ref: sArr(slice), Idx: ix(sOff(slice), idx), Typ: elemT}
}

// ix(off, i) is the array index of element i of a slice with offset off. It is kept as an
// uninterpreted application (axiom: ix(off,i) = off+i) unless off is literally 0, so that
// quantifier patterns over slice elements contain no arithmetic (e-matching would miss
// instances once the solver normalises sums).
func ix(off, i *Term) *Term {
	if n, ok := isLitInt(off); ok && n.Sign() == 0 {
		return i
	}
	if _, ok := isLitInt(off); ok {
		if _, ok2 := isLitInt(i); ok2 {
			return Add(off, i)
		}
	}
	declare("ix", []string{"Int", "Int"}, "Int")
	return App("ix", "Int", off, i)
}

func ixAxiom() *Term {
	a := BoundVar("q_a", "Int")
	b := BoundVar("q_b", "Int")
	t := App("ix", "Int", a, b)
	return Forall([]*Term{a, b}, [][]*Term{{t}}, Eq(t, Add(a, b)))
}
