package main

// The per-property check: verify every contract serving the property, discharge, match known
// findings, write evidence and replay files, print VIOLATION / KNOWN-FINDING lines.

import (
	"encoding/json"
	"flag"
	"fmt"
	"go/types"
	"os"
	"path/filepath"
	"sort"
	"strconv"
	"strings"
	"time"

	"golang.org/x/tools/go/ssa"
)

type PropConfig struct {
	Packages  []string `json:"packages"`
	Functions []string `json:"functions"` // contract keys that must exist and serve this property
	Lemmas    []string `json:"lemmas"`
	Bounded   []string `json:"bounded"`
	Residue   []string `json:"residue"` // clauses of the statement not decided (reported in evidence)
}

type KnownFinding struct {
	Property   string `json:"property"`
	Obligation string `json:"obligation"`
	What       string `json:"what"`
}

type KnownFile struct {
	Findings []KnownFinding `json:"findings"`
	Fixed    []string       `json:"fixed"`
}

func hasProp(ps []string, id string) bool {
	for _, p := range ps {
		if p == id {
			return true
		}
	}
	return false
}

func cmdCheck(args []string) int {
	fs := flag.NewFlagSet("check", flag.ExitOnError)
	repo := fs.String("repo", "/repo", "repository")
	verif := fs.String("verif", "/verif", "verif dir")
	prop := fs.String("prop", "", "property id")
	tier := fs.String("tier", "quick", "quick|thorough")
	fs.Parse(args)
	t0 := time.Now()
	seed := 0
	if s := os.Getenv("VERIF_SEED"); s != "" {
		seed, _ = strconv.Atoi(s)
	}
	var cfgs map[string]*PropConfig
	b, err := os.ReadFile(filepath.Join(*verif, "spec", "props.json"))
	if err != nil {
		fmt.Fprintln(os.Stderr, err)
		return 2
	}
	if err := json.Unmarshal(b, &cfgs); err != nil {
		fmt.Fprintln(os.Stderr, "props.json:", err)
		return 2
	}
	cfg := cfgs[*prop]
	if cfg == nil {
		fmt.Fprintf(os.Stderr, "no configuration for property %s\n", *prop)
		return 2
	}
	var known KnownFile
	if kb, err := os.ReadFile(filepath.Join(*verif, "known_findings.json")); err == nil {
		if err := json.Unmarshal(kb, &known); err != nil {
			fmt.Fprintln(os.Stderr, "known_findings.json:", err)
			return 2
		}
	}
	fail := func(what string) int {
		// machinery failure: report as a violation of the check itself (exit 2 is reserved for that)
		fmt.Fprintln(os.Stderr, "check failed to run:", what)
		return 2
	}
	w, err := loadWorld(*repo, cfg.Packages)
	if err != nil {
		return fail(err.Error())
	}
	loadS := time.Since(t0).Seconds()
	db, err := loadSpecs(w, filepath.Join(*verif, "spec"))
	if err != nil {
		return fail(err.Error())
	}
	x := newExec(w, db)
	timeout := 10
	agree := false
	if *tier == "thorough" {
		timeout = 60
		agree = true
	}
	// functions under contract for this property
	var keys []string
	for k, c := range db.contracts {
		if hasProp(c.Props, *prop) {
			keys = append(keys, k)
		}
	}
	sort.Strings(keys)
	var toolFailures []string
	have := map[string]bool{}
	for _, k := range keys {
		have[k] = true
	}
	for _, f := range cfg.Functions {
		if !have[f] {
			toolFailures = append(toolFailures, "expected contract for "+f+" is missing or no longer serves "+*prop)
			x.obls = append(x.obls, &Obligation{Name: f + "#contract-missing", Func: f, Kind: "missing", Failed: "no contract serving " + *prop + " found for this function", Props: []string{*prop}})
		}
	}
	t1 := time.Now()
	if *prop == "C13" || *prop == "C14" {
		// the SQL constants: parameters write the columns of the same name, selects only name written columns
		probs := sqlColumnsCheck(w)
		for i, pr := range probs {
			x.obls = append(x.obls, &Obligation{Name: fmt.Sprintf("sql#columns[%d]", i+1), Func: "sql constants", Kind: "sql", Failed: pr, Props: []string{*prop}})
		}
		x.assumed["storage: SQLite stores the value bound to parameter $x of an INSERT/UPDATE in column x and returns it unchanged from a SELECT of column x of that row (the parameter/column correspondence of the SQL constants is checked syntactically on every run)"] = true
	}
	if *prop == "C13" {
		for i, pr := range cosmosTagsCheck(w) {
			x.obls = append(x.obls, &Obligation{Name: fmt.Sprintf("cosmos#tags[%d]", i+1), Func: "cosmosdb entry struct tags", Kind: "sql", Failed: pr, Props: []string{*prop}})
		}
		x.assumed["storage: Cosmos DB returns the document stored under an item id unchanged, applies a patch operation to the JSON field its path names, and a query returns the documents it selects (the patch paths used by the updaters are checked against the json tags of the entry structs on every run)"] = true
	}
	for _, k := range keys {
		x.verifyFunction(db.contracts[k])
	}
	// bounded stand-ins (never counted as proved)
	var boundedOut []map[string]any
	var boundedViol []boundedResult
	for _, b := range cfg.Bounded {
		if strings.HasPrefix(b, "sql-search") {
			res, err := boundedSearchQuery(*repo)
			if err != nil {
				return fail(err.Error())
			}
			nOK := 0
			for _, r := range res {
				if r.OK {
					nOK++
				} else {
					boundedViol = append(boundedViol, r)
				}
			}
			boundedOut = append(boundedOut, map[string]any{"name": "sql-search", "what": b, "cases": len(res), "cases_ok": nOK,
				"bound": "|ByIDs| <= 2, |ByGroupIDs| <= 2, |ByStatus| <= 3 (35 filter shapes); WHERE clause evaluated on 3 ids x 3 groups x 4 statuses",
				"method": "the real buildSearchQuery is run (go test -overlay); its SQL is parsed and compared with the filter semantics of the statement"})
		}
	}
	for _, b := range cfg.Bounded {
		if strings.HasPrefix(b, "cosmos-search") {
			res, err := boundedCosmosSearchQuery(*repo)
			if err != nil {
				return fail(err.Error())
			}
			nOK := 0
			for _, r := range res {
				if r.OK {
					nOK++
				} else {
					boundedViol = append(boundedViol, r)
				}
			}
			boundedOut = append(boundedOut, map[string]any{"name": "cosmos-search", "what": b, "cases": len(res), "cases_ok": nOK,
				"bound": "|ByIDs| <= 2, |ByGroupIDs| <= 2, |ByStatus| <= 3 (35 filter shapes); WHERE clause evaluated on 2 swarms x 3 ids x 3 groups x 4 statuses",
				"method": "the real cosmosdb buildSearchQuery is run (go test -overlay); its query is parsed and compared with the filter semantics of the statement; every parameter named must be among the query parameters returned"})
		}
	}
	x.verifyLemmas(*prop)
	symS := time.Since(t1).Seconds()
	dir, _ := os.MkdirTemp("", "govc-")
	defer os.RemoveAll(dir)
	t2 := time.Now()
	// obligations recorded as known findings are expected to stay undecided: no second chance for them
	x.noRetry = map[string]bool{}
	for _, k := range known.Findings {
		x.noRetry[k.Obligation] = true
	}
	x.obls = x.solveAllSplit(x.obls, dir, timeout, agree, 16)
	solveS := time.Since(t2).Seconds()

	// classify
	type oblOut struct {
		Name    string  `json:"name"`
		Kind    string  `json:"kind"`
		Status  string  `json:"status"`
		Solver  string  `json:"solver,omitempty"`
		Seconds float64 `json:"seconds"`
		Note    string  `json:"note,omitempty"`
	}
	var outs []oblOut
	nObl, nDis, nCanary, nCanaryOK := 0, 0, 0, 0
	var failed []*Obligation
	solverTime := 0.0
	bySolver := map[string]int{}
	for _, o := range x.obls {
		r := o.Result
		oo := oblOut{Name: o.Name, Kind: o.Kind, Status: r.Status, Solver: r.Solver, Seconds: r.Seconds, Note: o.Note}
		if o.Failed != "" {
			oo.Note = o.Failed
		}
		outs = append(outs, oo)
		solverTime += r.Seconds
		if o.Kind == "canary" {
			nCanary++
			if r.Status != "unsat" {
				nCanaryOK++
			} else {
				o.Note = "vacuity: the assumptions of this function are contradictory (canary `false` was provable)"
				failed = append(failed, o)
			}
			continue
		}
		nObl++
		if r.Status == "unsat" {
			nDis++
			bySolver[r.Solver]++
		} else {
			failed = append(failed, o)
		}
	}
	knownBy := map[string]KnownFinding{}
	for _, k := range known.Findings {
		if k.Property == *prop {
			knownBy[k.Obligation] = k
		}
	}
	os.MkdirAll(filepath.Join(*verif, "replays"), 0o755)
	var violations []string
	var knownHit []KnownFinding
	var knownObls []string
	for _, o := range failed {
		if k, ok := knownBy[o.Name]; ok {
			knownHit = append(knownHit, k)
			knownObls = append(knownObls, o.Name)
			continue
		}
		path := x.writeReplay(*verif, *prop, o, dir)
		line := fmt.Sprintf("VIOLATION property=%s replay=%s obligation=%s status=%s", *prop, path, o.Name, o.Result.Status)
		if !x.replayConfirmed(o) {
			line += " no-failing-input-found"
		}
		violations = append(violations, line)
	}
	for _, r := range boundedViol {
		if k, ok := knownBy[r.Name]; ok {
			knownHit = append(knownHit, k)
			continue
		}
		name := strings.NewReplacer(" ", "_", "[", "_", "]", "", ",", "_", "=", "").Replace(r.Name)
		path := filepath.Join(*verif, "replays", *prop+"-"+name+".json")
		rb, _ := json.MarshalIndent(map[string]any{"property": *prop, "obligation": r.Name, "kind": "bounded", "failing_input": json.RawMessage(r.Input), "what_fails": r.Detail,
			"replay": "run (reader).buildSearchQuery on the filter shape in failing_input (the check does so through go test -overlay); the query it returns is in failing_input.q"}, "", " ")
		os.WriteFile(path, rb, 0o644)
		violations = append(violations, fmt.Sprintf("VIOLATION property=%s replay=%s obligation=%s status=failing-input-found", *prop, path, r.Name))
	}
	// known findings are not counted as obligations or discharged
	nObl -= len(knownObls)

	// evidence
	var fnList []string
	for _, k := range keys {
		fnList = append(fnList, k)
	}
	var samples []any
	for i, o := range x.obls {
		if o.Result != nil && o.Result.Status == "unsat" && o.Kind != "canary" && len(samples) < 3 && i%7 == 0 {
			vc := x.buildVC(o)
			txt := vc.Print("ALL", false)
			if len(txt) > 6000 {
				txt = txt[:6000] + "\n; ... truncated"
			}
			samples = append(samples, map[string]any{"obligation": o.Name, "smtlib": txt, "result": "unsat", "solver": o.Result.Solver})
		}
	}
	if len(samples) == 0 {
		for _, o := range x.obls {
			if o.Result != nil {
				samples = append(samples, map[string]any{"obligation": o.Name, "result": o.Result.Status})
				break
			}
		}
	}
	trusted := []string{
		"T-go: go/packages + go/types + go/ssa (x/tools v0.29.0) build a faithful SSA of /repo's working tree; the Go compiler implements that semantics",
		"T-solver: z3 4.8.12, z3 5.1.0 (z3-new), cvc5 1.0.3 are sound when they answer unsat",
		"T-govc: the VC generator in /verif/govc (mitigated by canaries and the must-fail corpus under /verif/selftest)",
		"machine integers are treated as mathematical integers (no overflow obligations)",
		"termination is not proved (partial correctness)",
	}
	var assumptions []string
	for a := range x.assumed {
		assumptions = append(assumptions, a)
	}
	for n := range x.notes {
		assumptions = append(assumptions, "note: "+n)
	}
	for _, r := range cfg.Residue {
		assumptions = append(assumptions, "not decided: "+r)
	}
	sort.Strings(assumptions)
	var abstracted []string
	for a := range x.abstract {
		abstracted = append(abstracted, a)
	}
	sort.Strings(abstracted)
	var inlined []string
	for a := range x.inlined {
		inlined = append(inlined, a)
	}
	sort.Strings(inlined)
	cov := map[string]any{
		"obligations":              nObl,
		"discharged":               nDis,
		"checker_cmd":              fmt.Sprintf("/verif/bin/govc check -prop %s -tier %s (go/ssa VC generation; per obligation a race of z3-new, z3, cvc5; unsat = discharged)", *prop, *tier),
		"trusted_base":             trusted,
		"functions_under_contract": fnList,
		"canaries":                 nCanary,
		"canaries_ok":              nCanaryOK,
		"discharged_by_solver":     bySolver,
		"solver_seconds_total":     solverTime,
		"load_seconds":             loadS,
		"symex_seconds":            symS,
		"solve_wall_seconds":       solveS,
		"abstracted_calls":         abstracted,
		"inlined_callees":          inlined,
		"known_finding_obligations": knownObls,
		"bounded":                  boundedOut,
		"samples":                  samples,
		"obligation_results":       outs,
		"tool_failures":            toolFailures,
		"spec_files":               db.files,
	}
	ev := map[string]any{
		"property_id": *prop,
		"tier":        *tier,
		"seed":        seed,
		"level":       "proof",
		"coverage":    cov,
		"assumptions": assumptions,
		"wall_s":      time.Since(t0).Seconds(),
		"violations":  len(violations),
	}
	evDir := filepath.Join(*verif, "evidence")
	if d := os.Getenv("GOVC_EVIDENCE_DIR"); d != "" {
		evDir = d // the must-fail selftest must not overwrite the evidence of the real tree
	}
	os.MkdirAll(evDir, 0o755)
	eb, _ := json.MarshalIndent(ev, "", " ")
	if err := os.WriteFile(filepath.Join(evDir, *prop+".json"), eb, 0o644); err != nil {
		return fail(err.Error())
	}
	fmt.Printf("property %s tier %s: %d functions under contract, %d obligations, %d discharged, %d canaries ok of %d, %d known-finding obligations, %.1fs\n",
		*prop, *tier, len(keys), nObl, nDis, nCanaryOK, nCanary, len(knownObls), time.Since(t0).Seconds())
	seenK := map[string]bool{}
	for _, k := range knownHit {
		if !seenK[k.Obligation] {
			seenK[k.Obligation] = true
			fmt.Printf("KNOWN-FINDING: property=%s %s (%s)\n", *prop, k.What, k.Obligation)
		}
	}
	// a listed finding whose obligation now discharges is only a note
	for _, k := range known.Findings {
		if k.Property == *prop && !seenK[k.Obligation] {
			fmt.Printf("note: known finding no longer reproduces: %s\n", k.Obligation)
		}
	}
	for _, v := range violations {
		fmt.Println(v)
	}
	if len(violations) > 0 {
		return 1
	}
	if nObl == 0 || nObl != nDis {
		fmt.Println("internal: obligation accounting mismatch")
		return 2
	}
	return 0
}

func (x *Exec) replayConfirmed(o *Obligation) bool { return o.replayOK }

// writeReplay writes the replay file for a failed obligation and returns its path.
func (x *Exec) writeReplay(verif, prop string, o *Obligation, dir string) string {
	name := strings.NewReplacer("/", "_", "(", "", ")", "", "*", "", "#", "-", "[", "_", "]", "", "@", "-", "~", "_", "$", "_").Replace(o.Name)
	path := filepath.Join(verif, "replays", prop+"-"+name+".json")
	rec := map[string]any{
		"property":   prop,
		"obligation": o.Name,
		"function":   o.Func,
		"kind":       o.Kind,
		"note":       o.Note,
		"status":     o.Result.Status,
		"solvers":    o.Result.All,
		"output":     o.Result.Output,
	}
	if o.Failed != "" {
		rec["tool_failure"] = o.Failed
	}
	if o.Failed == "" && o.Goal != nil {
		vc := x.buildVC(o)
		if o.Result.Status == "sat" {
			m := getModel(dir, vc, 20)
			if len(m) > 200000 {
				m = m[:200000]
			}
			rec["model"] = m
		}
		rec["replay"] = x.tryReplay(prop, o, vc, dir)
	} else {
		rec["replay"] = map[string]any{"attempted": false, "reason": "no solver model (tool failure or structural obligation)"}
	}
	b, _ := json.MarshalIndent(rec, "", " ")
	os.WriteFile(path, b, 0o644)
	return path
}

// tryReplay attempts to turn the verifier's counterexample into an execution of the real code.
func (x *Exec) tryReplay(prop string, o *Obligation, vc *VC, dir string) map[string]any {
	return map[string]any{"attempted": false, "reason": "no replay template for this function"}
}

func (x *Exec) verifyLemmas(prop string) {
	for _, l := range x.specs.lemmas {
		if !hasProp(l.Props, prop) {
			continue
		}
		x.verifyLemma(l)
	}
	for _, c := range x.specs.chains {
		if prop == "" || hasProp(c.Props, prop) {
			x.verifyChain(c)
		}
	}
}

// verifyChain: the state-chain lemma. For every state f of the machine: from an arbitrary request satisfying f's
// precondition, apply f's contract; the machine stops only in the final state; and on every edge Next == g (with
// Err == nil, the condition under which statemachine.Run continues, handing over the request with Next = nil) the
// precondition of g holds. With the trusted Run loop this is an induction over every run of the machine.
func (x *Exec) verifyChain(c *ChainDef) {
	pkgName := x.specs.chainPkg[c]
	for _, f := range c.States {
		x.verifyChainState(c, pkgName, f)
	}
}

func (x *Exec) verifyChainState(c *ChainDef, pkgName, f string) {
	keyOf := func(st string) string { return pkgName + "." + c.Name + "." + st }
	name := "chain " + pkgName + "." + c.Name + "[" + f + "]"
	x.cur = &Contract{Func: name, Props: c.Props}
	x.curKey = name
	x.facts = nil
	namedFormulas = map[*Term]*Term{}
	start := len(x.obls)
	defer func() {
		if r := recover(); r != nil {
			if u, ok := r.(unsupported); ok {
				x.obls = x.obls[:start]
				x.obls = append(x.obls, &Obligation{Name: name + "#tool-limit", Func: name, Kind: "tool-limit", Failed: u.msg, Props: c.Props})
				return
			}
			x.obls = x.obls[:start]
			x.obls = append(x.obls, &Obligation{Name: name + "#tool-limit", Func: name, Kind: "tool-limit", Failed: fmt.Sprintf("engine failure: %v", r), Props: c.Props})
			return
		}
	}()
	conF := x.specs.contracts[keyOf(f)]
	fnF := x.w.Funcs[keyOf(f)]
	if conF == nil || fnF == nil {
		x.obls = append(x.obls, &Obligation{Name: name + "#missing", Func: name, Kind: "missing", Failed: "state " + f + " has no contract or does not exist", Props: c.Props})
		return
	}
	st := newState()
	x.facts = append(x.facts, Ge(st.alloc, Int(1)))
	var args []Value
	for _, p := range fnF.Params {
		args = append(args, x.freshVal(st, "arg_"+p.Name(), p.Type()))
	}
	entry := st.clone()
	env := x.specEnvFor(conF, fnF.Signature, fnTypesPkg(fnF), args, st, entry)
	var pres []*Term
	for _, r := range conF.Requires {
		pres = append(pres, env.boolean(r.Expr))
	}
	x.assumePC(st, And(pres...))
	entry = st.clone()
	fr := &Frame{fn: fnF, info: analyzeFunc(fnF), regs: map[ssa.Value]Value{}, con: x.cur, entry: entry, params: args}
	fr.top = fr
	x.dry++ // the precondition of f is assumed, not re-proved
	pcBefore := st.pc
	_ = pcBefore
	x.dry--
	// apply f's contract: havoc its modifies clause, assume its postcondition
	x.obls = append(x.obls, &Obligation{Name: name + "#vacuity[requires-sat]", Func: name, Kind: "canary", Facts: x.facts[:len(x.facts):len(x.facts)], PC: st.pc, Goal: False, Props: c.Props})
	nObl := len(x.obls)
	res := x.applyContract(fr, st, conF, fnF.Signature, args, "chain", keyOf(f))
	// drop the (trivially true) precondition obligations applyContract produced
	x.obls = x.obls[:nObl]
	out := res.T
	if out == nil || dtTab[out.Sort] == nil {
		unsup("chain: state %s does not return a request struct", f)
	}
	reqT := fnF.Signature.Results().At(0).Type()
	su := reqT.Underlying().(*types.Struct)
	fErr, fNext := fieldIndex(su, "Err"), fieldIndex(su, "Next")
	next := Acc(out, fNext)
	errNil := Eq(Acc(Acc(out, fErr), 0), Int(0))
	x.obls = append(x.obls, &Obligation{Name: name + "#vacuity[post-sat]", Func: name, Kind: "canary", Facts: x.facts[:len(x.facts):len(x.facts)], PC: st.pc, Goal: False, Props: c.Props})
	recv := args[0]
	if f != c.Final {
		x.oblige(st, "chain", "continues", f, And(Not(Eq(Acc(next, 0), Int(0))), errNil), "only the final state stops the machine")
		var known []*Term
		for _, g := range c.States {
			bf := x.boundMethod(fnF.Params[0].Type(), g)
			if bf != nil {
				known = append(known, Eq(Acc(next, 0), Int(int64(x.fnID(bf)))))
			}
		}
		x.oblige(st, "chain", "known-state", f, Or(known...), "Next is one of the machine's states")
	}
	for _, g := range c.States {
		conG := x.specs.contracts[keyOf(g)]
		fnG := x.w.Funcs[keyOf(g)]
		bf := x.boundMethod(fnF.Params[0].Type(), g)
		if conG == nil || fnG == nil || bf == nil {
			continue
		}
		target := Mk(sortFn, Int(int64(x.fnID(bf))), x.boundEnv(st, recv.T, fnF.Params[0].Type()))
		gs := st.clone()
		gs.pc = And(st.pc, Eq(next, target), errNil)
		if gs.pc == False {
			continue
		}
		argsG := []Value{recv, {T: Upd(out, fNext, NilFn())}}
		envG := x.specEnvFor(conG, fnG.Signature, fnTypesPkg(fnG), argsG, gs, gs)
		for i, r := range conG.Requires {
			lab := r.Label
			if lab == "" {
				lab = fmt.Sprint(i + 1)
			}
			skip := false
			for _, sk := range c.Skip {
				if sk == lab {
					skip = true
				}
			}
			if skip {
				x.assumed["chain "+c.Name+": precondition ["+lab+"] of "+g+" is assumed on its incoming edges, not checked"] = true
				continue
			}
			x.oblige(gs, "edge", lab, f+"->"+g, envG.boolean(r.Expr), "postcondition of "+f+" on the edge to "+g+" implies this precondition of "+g)
		}
	}
}

func (x *Exec) verifyLemma(l *LemmaDef) {
	x.cur = nil
	x.curKey = "lemma " + l.Name
	x.facts = nil
	defer func() {
		if r := recover(); r != nil {
			if u, ok := r.(unsupported); ok {
				x.obls = append(x.obls, &Obligation{Name: "lemma " + l.Name + "#tool-limit", Func: "lemma " + l.Name, Kind: "tool-limit", Failed: u.msg, Props: l.Props})
				return
			}
			panic(r)
		}
	}()
	st := newState()
	env := &SpecEnv{x: x, vars: map[string]SVal{}, st: st, old: st, lets: map[string]*Expr{}}
	var hyps []*Term
	for _, a := range l.Assumes {
		hyps = append(hyps, env.boolean(a.Expr))
	}
	x.assumePC(st, And(hyps...))
	x.obls = append(x.obls, &Obligation{Name: "lemma " + l.Name + "#vacuity[assumes-sat]", Func: "lemma " + l.Name, Kind: "canary", Facts: x.facts[:len(x.facts):len(x.facts)], PC: st.pc, Goal: False, Props: l.Props})
	for i, s := range l.Shows {
		lab := s.Label
		if lab == "" {
			lab = fmt.Sprint(i + 1)
		}
		g := env.boolean(s.Expr)
		o := &Obligation{Name: fmt.Sprintf("lemma %s#show[%s]", l.Name, lab), Func: "lemma " + l.Name, Kind: "lemma", Facts: x.facts[:len(x.facts):len(x.facts)], PC: st.pc, Goal: g, Props: l.Props}
		x.obls = append(x.obls, o)
	}
}
