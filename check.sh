#!/bin/sh
# usage: check.sh <property> [quick|thorough]
# Rebuilds nothing but reads /repo's current working tree on every run (go/packages load with -tags verif).
cd /verif || exit 2
export GOFLAGS=-mod=mod GOPROXY=off
ID="$1"; TIER="${2:-${VERIF_TIER:-quick}}"
[ -x /verif/bin/govc ] || (cd /verif/govc && GOFLAGS=-mod=vendor go build -o /verif/bin/govc .) || exit 2
exec /verif/bin/govc check -prop "$ID" -tier "$TIER"
