#!/bin/sh
# usage: check.sh <property> [quick|thorough]
# Rebuilds nothing but reads /repo's current working tree on every run (go/packages load with -tags verif).
# thorough = the same obligations with 60 s caps and three-solver agreement, followed by the sensitivity self-test of the
# property's check (tools/selftest_prop.sh: seeded breaking changes and reverted fixes applied to a scratch copy of the
# working tree must be re-detected); the self-test prints SELFTEST lines only, is recorded in the evidence file under
# coverage.selftest, and does not change the exit status.
cd /verif || exit 2
export GOFLAGS=-mod=mod GOPROXY=off
ID="$1"; TIER="${2:-${VERIF_TIER:-quick}}"
[ -x /verif/bin/govc ] || (cd /verif/govc && GOFLAGS=-mod=vendor go build -o /verif/bin/govc .) || exit 2
if [ "$TIER" != "thorough" ]; then
  exec /verif/bin/govc check -prop "$ID" -tier "$TIER"
fi
/verif/bin/govc check -prop "$ID" -tier thorough
st=$?
[ $st -eq 2 ] && exit 2
ST_OUT=$(/verif/tools/selftest_prop.sh "$ID" 2>&1 | grep '^SELFTEST')
echo "$ST_OUT"
EVF="${GOVC_EVIDENCE_DIR:-/verif/evidence}/$ID.json"
if [ -f "$EVF" ]; then
  ST_OUT="$ST_OUT" python3 - "$EVF" <<'PY'
import json,os,re,sys
p=sys.argv[1]
e=json.load(open(p))
lines=[l for l in os.environ.get('ST_OUT','').splitlines() if l.startswith('SELFTEST')]
cases=[l for l in lines if ' case=' in l]
m=re.search(r'summary: (\d+) of (\d+) breaking changes re-detected, (\d+) skipped', lines[-1]) if lines else None
e.setdefault('coverage',{})['selftest']={
 "what":"sensitivity self-test of this check: seeded breaking changes (sub-agents given only the property text) and reverted fix commits applied to a scratch copy of /repo's working tree; the quick check must report a violation on each",
 "re_detected": int(m.group(1)) if m else 0, "run": int(m.group(2)) if m else 0, "skipped_not_applicable": int(m.group(3)) if m else 0,
 "cases": cases}
json.dump(e,open(p,'w'),indent=1)
PY
fi
exit $st
