#!/bin/sh
# Must-fail corpus: every patch under selftest/mutants/<ID>/ must make `check.sh <ID> quick` report a VIOLATION,
# and the unpatched tree must not. Patches are applied to /repo's working tree and reverted straight afterwards.
# usage: selftest/run.sh [ID ...]
cd /verif || exit 2
IDS="$@"; [ -z "$IDS" ] && IDS=$(ls selftest/mutants)
rc=0
for id in $IDS; do
  for p in selftest/mutants/$id/*.diff; do
    [ -f "$p" ] || continue
    if ! git -C /repo apply --check "$PWD/$p" 2>/dev/null; then echo "SKIP  $id $(basename $p) (does not apply)"; rc=1; continue; fi
    git -C /repo apply "$PWD/$p"
    out=$(GOVC_EVIDENCE_DIR=$(mktemp -d) ./check.sh $id quick 2>&1); st=$?
    git -C /repo apply -R "$PWD/$p"
    n=$(echo "$out" | grep -c '^VIOLATION')
    if [ $st -eq 1 ] && [ $n -gt 0 ]; then
      echo "CAUGHT $id $(basename $p): $(echo "$out" | grep '^VIOLATION' | head -1 | sed 's/.*obligation=//')"
    else
      echo "MISSED $id $(basename $p) (exit $st)"; rc=1
    fi
  done
done
exit $rc
