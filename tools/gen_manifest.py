#!/usr/bin/env python3
"""Regenerates /verif/MANIFEST.json from tools/manifest_table.json (claimed checks) and properties.jsonl."""
import json, subprocess
props=[json.loads(l) for l in open('/verif/properties.jsonl')]
tab=json.load(open('/verif/tools/manifest_table.json'))
hooks=subprocess.run(['git','-C','/repo','log','--format=%h %s'],capture_output=True,text=True).stdout.splitlines()
hook_commits=[l.split()[0] for l in hooks if 'verif hook' in l or l.split(' ',1)[1].startswith('verif contracts')]
checks=[]; na=[]
for p in props:
    i=p['id']
    if i in tab['claimed']:
        c=tab['claimed'][i]
        checks.append({
          "property_id": i,
          "quick_cmd": f"./check.sh {i} quick",
          "thorough_cmd": f"./check.sh {i} thorough",
          "evidence_file": f"/verif/evidence/{i}.json",
          "replay_cmd_template": "cat {path}",
          "engine": "govc",
          "level_claimed": {"category":"proof","text":c['text'],"design_ref":c.get('design_ref','DESIGN.md section 6')},
          "level_note": c['note'],
          "technique": c.get('technique',"contract-based deductive verification: weakest-precondition VCs over go/ssa of the real code, contracts as guarded structured comments, discharged by z3/cvc5")})
    else:
        na.append({"property_id":i,"reason":tab['not_applicable'].get(i,"no check built yet (framework under construction; DESIGN.md section 11 gives the build order)")})
m={"version":1,
 "setup_cmd":"cd /verif/govc && GOFLAGS=-mod=vendor GOPROXY=off go build -o /verif/bin/govc .",
 "hooks":{"guard":"verif","enable":"go/packages load with -tags verif; the hook files /repo/<pkg>/zz_contracts_verif.go are comment-only (no declarations), so builds with and without the tag are identical",
          "baseline_off_cmd":"cd /repo && GOFLAGS=-mod=mod GOPROXY=off go test -vet=off -count=1 -timeout 25m ./...","source_commits":hook_commits,"add_only":True},
 "engines":[{"name":"govc","path":"/verif/govc","serves_properties":sorted(tab['claimed'].keys()),
             "kind_free_text":"self-written deductive verifier for Go: go/packages+go/ssa symbolic executor generating weakest-precondition obligations per function under contract (requires/ensures/modifies/loop invariants/ghost monitors in /*@ @*/ comments of build-tag-guarded files in /repo), modular calls, Burstall heap, exact append; obligations discharged by a race of z3 5.1, z3 4.8.12 and cvc5 1.0.3"}],
 "checks":checks,
 "notes":tab.get('notes',''),
 "not_applicable":na}
json.dump(m,open('/verif/MANIFEST.json','w'),indent=1)
print("checks:",[c['property_id'] for c in checks])
