#!/usr/bin/env python3
"""Rewrites the obligation counts (third column) of the table in DESIGN.md 13.2 from the evidence files."""
import json,re
p='/verif/DESIGN.md'
s=open(p).read()
def repl(m):
    pid=m.group(1)
    try:
        e=json.load(open(f'/verif/evidence/{pid}.json'))
    except Exception:
        return m.group(0)
    n=e['coverage']['obligations']
    third=m.group(3)
    third2=re.sub(r'^\s*\d+', ' %d'%n, third)
    return f"| {pid} |{m.group(2)}|{third2}|"
s=re.sub(r'^\| (C\d\d) \|([^|]*)\|([^|]*)\|', repl, s, flags=re.M)
open(p,'w').write(s)
