#!/bin/sh
# usage: confirm_seed.sh <seed dir under /verif/seeded>   (needs meta.json, patch.diff, zz_demo_*_test.go)
# Confirms in a scratch worktree: demo fails with the change, suite passes with the change, demo passes without it.
set -u
SD=/verif/seeded/$1
WT=/tmp/confirm_$$
export GOFLAGS=-mod=mod GOPROXY=off
git -C /repo worktree add -q --detach $WT HEAD || exit 2
PKG=$(python3 -c "import json;print(json.load(open('$SD/meta.json'))['demo_pkg'])")
DEMO=$(ls $SD/zz_demo_*_test.go | head -1)
RUN=$(python3 -c "
import json,re
m=json.load(open('$SD/meta.json'))['demo_run']
r=re.search(r\"-run '?([^ ']+)'?\", m); print(r.group(1))")
cd $WT
res="seed=$1"
git apply $SD/patch.diff || { echo "$res patch-does-not-apply"; cd /; git -C /repo worktree remove --force $WT; exit 1; }
cp $DEMO $WT/$PKG/
if go test -vet=off -count=1 -timeout 300s -run "$RUN" ./$PKG/ >/tmp/confirm_$$.demo1 2>&1; then res="$res demo_with_change=PASS(unexpected)"; else res="$res demo_with_change=FAIL(expected)"; fi
rm $WT/$PKG/$(basename $DEMO)
if go test -vet=off -count=1 -timeout 25m ./... >/tmp/confirm_$$.suite 2>&1; then res="$res suite_with_change=PASS"; else res="$res suite_with_change=FAIL($(grep -c '^FAIL' /tmp/confirm_$$.suite))"; fi
git apply -R $SD/patch.diff
cp $DEMO $WT/$PKG/
if go test -vet=off -count=1 -timeout 300s -run "$RUN" ./$PKG/ >/tmp/confirm_$$.demo2 2>&1; then res="$res demo_without_change=PASS(expected)"; else res="$res demo_without_change=FAIL(unexpected)"; fi
cd /
git -C /repo worktree remove --force $WT
rm -f /tmp/confirm_$$.*
echo "$res"
