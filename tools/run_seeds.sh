#!/bin/sh
# usage: tools/run_seeds.sh [-all] [seed-dir-name ...]
# Applies each seeded change (seeded/<name>/patch.diff) to a scratch worktree of /repo's HEAD (never to /repo itself),
# runs the quick check of the property it breaks (with -all: of every claimed property) against that worktree and reports
# which obligations fail. Evidence of the real tree is not touched (GOVC_EVIDENCE_DIR).
cd /verif || exit 2
export GOFLAGS=-mod=mod GOPROXY=off
ALL=0
if [ "$1" = "-all" ]; then ALL=1; shift; fi
SEEDS="$@"; [ -z "$SEEDS" ] && SEEDS=$(ls seeded)
CLAIMED=$(python3 -c "import json;print(' '.join(c['property_id'] for c in json.load(open('MANIFEST.json'))['checks']))")
[ -x bin/govc ] || (cd govc && GOFLAGS=-mod=vendor go build -o /verif/bin/govc .) || exit 2
WT=/tmp/seedwt_$$
EV=$(mktemp -d)
for s in $SEEDS; do
  prop=$(python3 -c "import json;print(json.load(open('seeded/$s/meta.json'))['property'])")
  git -C /repo worktree add -q --detach $WT HEAD || exit 2
  if ! git -C $WT apply /verif/seeded/$s/patch.diff 2>/dev/null; then
    echo "SKIP   $s (patch does not apply)"; git -C /repo worktree remove --force $WT; continue
  fi
  props=$prop; [ $ALL = 1 ] && props="$CLAIMED"
  caught=""
  for p in $props; do
    case " $CLAIMED " in *" $p "*) ;; *) continue;; esac
    out=$(GOVC_EVIDENCE_DIR=$EV GOVC_REPLAY_DIR=$EV ./bin/govc check -repo $WT -prop $p -tier quick 2>&1); st=$?
    n=$(echo "$out" | grep -c '^VIOLATION')
    if [ $st -eq 1 ] && [ $n -gt 0 ]; then
      caught="$caught $p[$n]:$(echo "$out" | grep '^VIOLATION' | head -2 | sed 's/.*obligation=//; s/ status=.*//' | tr '\n' ',')"
    elif [ $st -ne 0 ]; then
      caught="$caught $p:exit$st"
    fi
  done
  git -C /repo worktree remove --force $WT
  if [ -n "$caught" ]; then echo "CAUGHT $s by$caught"; else
    case " $CLAIMED " in *" $prop "*) echo "MISSED $s (property $prop)";; *) echo "UNCLAIMED $s (property $prop has no check)";; esac
  fi
done
rm -rf $EV
