#!/bin/sh
# usage: import_seed.sh <tag> <name>   copies /tmp/seed_out_<tag> to /verif/seeded/<name>, removes the agent's worktree /tmp/wt_<tag>
T=$1; N=$2
mkdir -p /verif/seeded/$N && cp /tmp/seed_out_$T/patch.diff /tmp/seed_out_$T/meta.json /tmp/seed_out_$T/zz_demo_*_test.go /verif/seeded/$N/ || exit 1
git -C /repo worktree remove --force /tmp/wt_$T 2>/dev/null
rm -rf /tmp/seed_out_$T /tmp/wt_$T
ls /verif/seeded/$N
