#!/bin/sh
# usage: mk_seed_wt.sh <tag>   e.g. C11c -> scratch worktree /tmp/wt_C11c of /repo's HEAD with the contract files hidden
# (a seed sub-agent sees only the repository as a user would: nothing from /verif, no zz_contracts_verif.go), output dir /tmp/seed_out_<tag>
T=$1
WT=/tmp/wt_$T
git -C /repo worktree add -q --detach $WT HEAD || exit 2
cd $WT || exit 2
for f in $(git ls-files | grep 'zz_contracts_verif.go$'); do git update-index --skip-worktree $f; rm -f $f; done
mkdir -p /tmp/seed_out_$T
echo $WT
