#!/usr/bin/env python3
"""usage: unsatcore.py file.smt2  -- delta-debugs the top-level asserts of an unsat query down to a minimal unsat subset."""
import sys,subprocess,re
src=open(sys.argv[1]).read()
# split into top-level s-expressions
forms=[];d=0;cur=''
for ch in src:
    cur+=ch
    if ch=='(': d+=1
    elif ch==')':
        d-=1
        if d==0: forms.append(cur.strip()); cur=''
asserts=[i for i,f in enumerate(forms) if f.startswith('(assert')]
def run(keep):
    txt='\n'.join(f for i,f in enumerate(forms) if not f.startswith('(assert') or i in keep)
    txt=txt.replace('(get-model)','')
    open('/tmp/_core.smt2','w').write(txt)
    try:
        out=subprocess.run(['z3-new','-T:20','/tmp/_core.smt2'],capture_output=True,text=True,timeout=30).stdout
    except Exception: return False
    return out.strip().startswith('unsat')
keep=set(asserts)
assert run(keep),"not unsat"
changed=True
n=max(1,len(keep)//2)
lst=list(keep)
while n>=1:
    i=0
    while i<len(lst):
        trial=lst[:i]+lst[i+n:]
        if run(set(trial)): lst=trial
        else: i+=n
    n//=2
for i in lst: print(forms[i][:1500]); print('---')
