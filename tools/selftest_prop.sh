#!/bin/sh
# usage: tools/selftest_prop.sh <property>
# Sensitivity self-test of one property's check (part of the thorough tier): every seeded breaking change of the property
# (/verif/seeded/<name>/patch.diff, produced by sub-agents that saw only the property text) and every recorded fix of the
# property (reverted) is applied to a scratch COPY of /repo's current working tree - never to /repo, nothing is written into
# /repo/.git - and the quick check is run on the copy: it must report a violation. Prints one SELFTEST line per case and a
# summary; never prints a VIOLATION line and does not influence the exit status of the property check (it tests the
# machinery, not the tree). Cases whose patch does not apply to the current tree are skipped.
ID="$1"
cd /verif || exit 0
export GOFLAGS=-mod=mod GOPROXY=off
TMP=$(mktemp -d "${TMPDIR:-/tmp}/govc-selftest-XXXXXX") || exit 0
trap 'rm -rf "$TMP"' EXIT INT TERM
EV="$TMP/ev"; mkdir -p "$EV"
n=0; caught=0; skipped=0
run_case() { # name, patch file, reverse flag
  name="$1"; pf="$2"; rev="$3"
  COPY="$TMP/repo"; rm -rf "$COPY"; mkdir -p "$COPY"
  (cd /repo && tar --exclude=.git -cf - .) | (cd "$COPY" && tar -xf -)
  if ! (cd "$COPY" && git apply $rev --exclude='*zz_contracts_verif.go' "$pf" 2>/dev/null); then
    echo "SELFTEST property=$ID case=$name skipped (does not apply to the current tree)"; skipped=$((skipped+1)); return
  fi
  n=$((n+1))
  out=$(GOVC_EVIDENCE_DIR="$EV" GOVC_REPLAY_DIR="$EV" ./bin/govc check -repo "$COPY" -prop "$ID" -tier quick 2>&1); st=$?
  if [ $st -eq 1 ] && echo "$out" | grep -q '^VIOLATION'; then
    caught=$((caught+1))
    echo "SELFTEST property=$ID case=$name re-detected ($(echo "$out" | grep '^VIOLATION' | head -1 | sed 's/.*obligation=//; s/ status=.*//'))"
  else
    echo "SELFTEST property=$ID case=$name NOT re-detected (check exit $st)"
  fi
}
for s in $(ls seeded 2>/dev/null); do
  p=$(python3 -c "import json;print(json.load(open('seeded/$s/meta.json'))['property'])" 2>/dev/null)
  [ "$p" = "$ID" ] || continue
  run_case "seed:$s" "/verif/seeded/$s/patch.diff" ""
done
for pc in $(python3 -c "
import json,re
for f in json.load(open('known_findings.json'))['fixed']:
    m=re.match(r'fixed: property=(\S+) (\S+) ',f)
    if m and m.group(1)=='$ID': print(m.group(2))
"); do
  git -C /repo cat-file -e "$pc" 2>/dev/null || continue
  git -C /repo show "$pc" > "$TMP/rev.diff" 2>/dev/null || continue
  run_case "revert:$pc" "$TMP/rev.diff" "-R"
done
echo "SELFTEST property=$ID summary: $caught of $n breaking changes re-detected, $skipped skipped"
exit 0
