#!/bin/sh
# usage: tools/run_harmless.sh [file.diff ...]
# Must-pass corpus: behaviour-preserving variants (selftest/harmless/*.diff) applied to a scratch worktree of /repo's HEAD;
# the quick check of every claimed property whose packages the change touches is run and must stay silent. Every alarm here is a
# false alarm of the machinery (typically the brittleness limit: contracts keyed to loop/return ordinals or local names).
cd /verif || exit 2
export GOFLAGS=-mod=mod GOPROXY=off
FILES="$@"; [ -z "$FILES" ] && FILES=$(ls selftest/harmless/*.diff)
CLAIMED=$(python3 -c "import json;print(' '.join(c['property_id'] for c in json.load(open('MANIFEST.json'))['checks']))")
[ -n "$HARMLESS_PROPS" ] && CLAIMED="$HARMLESS_PROPS"   # restrict to some properties (e.g. those whose packages the bundle touches)
WT=/tmp/harmlesswt_$$
EV=$(mktemp -d)
for f in $FILES; do
  git -C /repo worktree add -q --detach $WT HEAD || exit 2
  if ! git -C $WT apply /verif/$f 2>/dev/null && ! git -C $WT apply $f 2>/dev/null; then echo "SKIP   $f (does not apply)"; git -C /repo worktree remove --force $WT; continue; fi
  alarms=""
  for p in $CLAIMED; do
    out=$(GOVC_EVIDENCE_DIR=$EV GOVC_REPLAY_DIR=$EV ./bin/govc check -repo $WT -prop $p -tier quick 2>&1); st=$?
    n=$(echo "$out" | grep -c '^VIOLATION')
    if [ $st -ne 0 ] || [ $n -gt 0 ]; then
      alarms="$alarms\n    $p[$n]: $(echo "$out" | grep '^VIOLATION' | sed 's/.*obligation=//; s/ status=.*//' | sort -u | head -6 | tr '\n' ' ')"
    fi
  done
  git -C /repo worktree remove --force $WT
  if [ -z "$alarms" ]; then echo "SILENT $f"; else printf "ALARM  $f$alarms\n"; fi
done
rm -rf $EV
