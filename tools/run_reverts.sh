#!/bin/sh
# usage: tools/run_reverts.sh [commit ...]
# Must-fail canaries from the repaired defects: for every "fixed:" entry of known_findings.json the fix commit is reverted in a
# scratch worktree of /repo's HEAD (never in /repo itself) and the quick check of the property it was recorded under is run
# against that worktree: it must report a VIOLATION again ("a fixed entry suppresses nothing"). A revert that no longer
# applies (later commits changed the same lines) is reported as SKIP.
cd /verif || exit 2
export GOFLAGS=-mod=mod GOPROXY=off
[ -x bin/govc ] || (cd govc && GOFLAGS=-mod=vendor go build -o /verif/bin/govc .) || exit 2
LIST=$(python3 -c "
import json,re
for f in json.load(open('known_findings.json'))['fixed']:
    m=re.match(r'fixed: property=(\S+) (\S+) ',f)
    if m: print(m.group(1)+':'+m.group(2))
")
WT=/tmp/revertwt_$$
EV=$(mktemp -d)
for pc in $LIST; do
  p=${pc%%:*}; c=${pc##*:}
  if [ $# -gt 0 ]; then case " $* " in *" $c "*) ;; *) continue;; esac; fi
  git -C /repo cat-file -e $c 2>/dev/null || { echo "SKIP   $p $c (no such commit)"; continue; }
  git -C /repo worktree add -q --detach $WT HEAD || exit 2
  if ! git -C /repo show $c -- . ':!*zz_contracts_verif.go' | git -C $WT apply -R 2>/dev/null; then
    echo "SKIP   $p $c (revert does not apply)"; git -C /repo worktree remove --force $WT; continue
  fi
  out=$(GOVC_EVIDENCE_DIR=$EV GOVC_REPLAY_DIR=$EV ./bin/govc check -repo $WT -prop $p -tier quick 2>&1); st=$?
  n=$(echo "$out" | grep -c '^VIOLATION')
  git -C /repo worktree remove --force $WT
  if [ $st -eq 1 ] && [ $n -gt 0 ]; then
    echo "CAUGHT $p $c [$n]: $(echo "$out" | grep '^VIOLATION' | head -2 | sed 's/.*obligation=//; s/ status=.*//' | tr '\n' ',')"
  elif [ $st -ne 0 ]; then echo "ERROR  $p $c exit $st: $(echo "$out" | tail -1)"
  else echo "MISSED $p $c ($(git -C /repo log --format=%s -1 $c))"; fi
done
rm -rf $EV
